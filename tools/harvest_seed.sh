#!/bin/sh
# usage: harvest_seed.sh <worktree> <seed-name> <property> <demo-target-relpath> <go test -run pattern> <pkg> ["needs text"]
# Copies patch+demo to /verif/seeded/<seed-name>/ and confirms in a scratch copy of /repo:
#  compiles, pinned tests pass, demo fails with the patch and passes without.
set -e
wt="$1"; name="$2"; prop="$3"; target="$4"; runpat="$5"; pkg="$6"; needs="$7"
export GOFLAGS=-mod=mod GOPROXY=off GOSUMDB=off GOTOOLCHAIN=local
out=/verif/seeded/$name; mkdir -p $out
(cd $wt && git diff -- . ':!**/zz_contracts_verif.go' ':!zz_contracts_verif.go') > $out/patch.diff
cp $wt/DEMO/*_test.go.txt $out/ 2>/dev/null || true
cp $wt/DEMO/README.md $out/README.agent.md 2>/dev/null || true
demo=$(ls $out/*_test.go.txt | head -1)
S=/tmp/seedval.$$; /verif/tools/scratch.sh $S
res_without=fail; res_with=pass; build=fail; base=fail
cp $demo $S/$target
if (cd $S && go test -vet=off -count=1 -timeout 300s -run "$runpat" $pkg >/tmp/seedval.$$.without.log 2>&1); then res_without=pass; fi
(cd $S && git init -q . 2>/dev/null; git -C $S apply --whitespace=nowarn $out/patch.diff)
if (cd $S && go build ./... >/dev/null 2>&1 && go build -tags verif ./... > /dev/null 2>&1); then build=ok; fi
if (cd $S && go test -vet=off -count=1 -timeout 300s -run "$runpat" $pkg >/tmp/seedval.$$.with.log 2>&1); then res_with=pass; else res_with=fail; fi
rm -f $S/$target
if python3 /verif/tools/baseline.py $S >/tmp/seedval.$$.base.log 2>&1; then base=pass; fi
tail -3 /tmp/seedval.$$.with.log > $out/demo_with_patch.log; tail -3 /tmp/seedval.$$.without.log > $out/demo_without_patch.log
python3 - "$out" "$prop" "$target" "$runpat" "$pkg" "$build" "$base" "$res_with" "$res_without" "$needs" <<'PY'
import json,sys
out,prop,target,runpat,pkg,build,base,w,wo,needs=sys.argv[1:11]
json.dump({"property":prop,"needs_to_manifest":needs,"demo":{"copy_to":target,"run":"go test -vet=off -count=1 -run '%s' %s"%(runpat,pkg)},
 "confirmed":{"compiles":build=="ok","pinned_tests_pass_with_patch":base=="pass","demo_with_patch":w,"demo_without_patch":wo},
 "ran":"tools/harvest_seed.sh (scratch copy of /repo under /tmp, removed afterwards)"}, open(out+"/meta.json","w"), indent=1)
print(open(out+"/meta.json").read())
PY
rm -rf $S /tmp/seedval.$$.*
