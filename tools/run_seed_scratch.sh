#!/bin/sh
# usage: run_seed_scratch.sh <seed-name> [property ...]
# Development aid: runs the checks of the given properties against a scratch copy of the committed state (HEAD) of /repo with the
# seeded change applied (so /repo stays free for editing). Evidence and replays go to a throw-away
# directory. The run that is recorded for a seed is tools/run_seed.sh (which applies it to /repo).
seed="$1"; shift
props="$@"; [ -z "$props" ] && props=$(python3 -c "import json;print(json.load(open('/verif/seeded/$seed/meta.json'))['property'])")
S=/tmp/seedscr.$seed; V=/tmp/seedver.$seed
rm -rf $S; mkdir -p $S; git -C /repo archive HEAD | tar -x -C $S; (cd $S && git init -q . && git apply --whitespace=nowarn /verif/seeded/$seed/patch.diff) || { echo "patch does not apply"; rm -rf $S; exit 2; }
rm -rf $V; mkdir -p $V/evidence $V/replays; ln -s /verif/specs $V/specs; ln -s /verif/known_findings.json $V/known_findings.json; ln -s /verif/replaytpl $V/replaytpl
export GOFLAGS=-mod=mod GOPROXY=off GOSUMDB=off GOTOOLCHAIN=local
for p in $props; do /verif/bin/govc check -prop $p -tier quick $SEED_FAST -repo $S -verif $V; echo "seed=$seed property=$p exit=$?"; done
rm -rf $S $V
