#!/bin/sh
# usage: scratch.sh <dir>   -- copy the working tree of /repo (tracked + untracked, no .git) to <dir>
set -e
rm -rf "$1"; mkdir -p "$1"
cd /repo && { git ls-files; git ls-files --others --exclude-standard; } | sort -u | while read f; do [ -f "$f" ] && { mkdir -p "$1/$(dirname "$f")"; cp -p "$f" "$1/$f"; }; done
