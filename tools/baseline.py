#!/usr/bin/env python3
"""Run the pinned baseline (guard OFF) in a repo dir and compare with BASELINE.json stable_pass.
usage: baseline.py [repo_dir]   exit 0 iff every stable_pass test passed."""
import json, os, subprocess, sys
repo = sys.argv[1] if len(sys.argv) > 1 else "/repo"
base = json.load(open("/root/.vp/BASELINE.json"))
want = set(base["stable_pass"])
env = dict(os.environ, GOFLAGS="-mod=mod", GOPROXY="off", GOSUMDB="off", GOTOOLCHAIN="local")
p = subprocess.run(["go", "test", "-json", "-vet=off", "-count=1", "-timeout", "25m", "./..."],
                   cwd=repo, env=env, capture_output=True, text=True)
passed = set()
failed = set()
for line in p.stdout.splitlines():
    try:
        ev = json.loads(line)
    except Exception:
        continue
    if "Test" not in ev:
        continue
    k = ev["Package"] + "::" + ev["Test"]
    if ev.get("Action") == "pass":
        passed.add(k)
    elif ev.get("Action") == "fail":
        failed.add(k)
missing = sorted(want - passed)
print(f"baseline: stable_pass={len(want)} passed_of_those={len(want & passed)} missing={len(missing)}")
for m in missing[:40]:
    print("  NOT PASSED:", m, "(failed)" if m in failed else "(not run)")
sys.exit(0 if not missing else 1)
