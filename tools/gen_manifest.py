#!/usr/bin/env python3
"""Generates MANIFEST.json from specs/props.json + specs/manifest_meta.json (claimed checks and not_applicable reasons)."""
import json, os, subprocess
V = os.path.dirname(os.path.dirname(os.path.abspath(__file__)))
props = json.load(open(os.path.join(V, "specs/props.json")))
meta = json.load(open(os.path.join(V, "specs/manifest_meta.json")))
ids = [json.loads(l)["id"] for l in open(os.path.join(V, "properties.jsonl"))]
hooks = subprocess.run(["git", "-C", "/repo", "log", "--format=%h", "--grep=^verif hook:"], capture_output=True, text=True).stdout.split()
checks, na = [], []
for pid in ids:
    m = meta.get(pid, {})
    if pid in props and m.get("claim", False):
        p = props[pid]
        checks.append({
            "property_id": pid,
            "quick_cmd": f"./check {pid} --tier quick",
            "thorough_cmd": f"./check {pid} --tier thorough",
            "evidence_file": f"/verif/evidence/{pid}.json",
            "engine": "govc",
            "level_claimed": {"category": "proof",
                              "text": m["text"] + " DECIDED: " + "; ".join(p.get("decided", [])) + ". NOT DECIDED by this check: " + "; ".join(p.get("not_decided", [])) + ".",
                              "design_ref": m.get("design_ref", "DESIGN.md §4 " + pid)},
            "level_note": m["note"],
            "technique": m.get("technique", "contract-based deductive verification: VCs generated from go/ssa of the real functions, discharged by z3/cvc5"),
        })
    else:
        na.append({"property_id": pid, "reason": m.get("na_reason", "not yet brought under contract in this round; see DESIGN.md")})
man = {
    "version": 1,
    "setup_cmd": "./setup.sh",
    "hooks": {"guard": "verif (Go build tag)", "enable": "go build -tags verif ./... ; govc loads packages with -tags=verif (adds comment-only contract files zz_contracts_verif.go)",
              "baseline_off_cmd": "cd /repo && GOFLAGS=-mod=mod GOPROXY=off GOSUMDB=off GOTOOLCHAIN=local go test -json -vet=off -count=1 -timeout 25m ./...",
              "source_commits": list(reversed(hooks)), "add_only": True},
    "engines": [{"name": "govc", "path": "/verif/govc", "serves_properties": [c["property_id"] for c in checks],
                 "kind_free_text": "verification-condition generator for Go (forward symbolic execution over go/ssa, contracts as //@ comments in build-tag-guarded files in /repo), obligations discharged by z3 4.8.12 / z3 5.1.0 / cvc5 1.0.3"}],
    "checks": checks,
    "not_applicable": na,
    "notes": "All checks are contract-based deductive verification of the real code. ./check <id> regenerates every obligation from /repo's working tree. Exit 0: all claimed obligations discharged (KNOWN-FINDING lines for listed findings); exit 1: VIOLATION lines; exit 2: engine/contract error (never a verdict).",
}
json.dump(man, open(os.path.join(V, "MANIFEST.json"), "w"), indent=1)
print("MANIFEST.json: %d checks, %d not_applicable" % (len(checks), len(na)))
