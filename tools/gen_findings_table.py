#!/usr/bin/env python3
"""Rewrites section 7.4c of DESIGN.md (findings per property) from known_findings.json."""
import json, collections
f = json.load(open('/verif/known_findings.json'))['findings']
by = collections.defaultdict(lambda: {'fixed': [], 'obl': [], 'obs': []})
for x in f:
    if x['status'] == 'fixed':
        by[x['property']]['fixed'].append(x.get('commit', '?'))
    elif x.get('observed'):
        by[x['property']]['obs'].append(x['observed'])
    else:
        o = x['obligation']
        by[x['property']]['obl'].append(o.split('/')[0].split('.')[-1] + '/' + o.split('/', 1)[1] if '/' in o else o)
rows = ["| id | repaired (fix: commits recorded in known_findings.json) | listed by failing obligation | observed (no obligation decides it) |", "|---|---|---|---|"]
for k in sorted(by):
    b = by[k]
    rows.append(f"| {k} | {', '.join(b['fixed']) or '-'} | {'; '.join('`'+o+'`' for o in b['obl']) or '-'} | {'; '.join(b['obs']) or '-'} |")
sec = "### 7.4c Findings per property at the end of the build round\n\nGenerated from `known_findings.json` by `tools/gen_findings_table.py` (the file the checks read; `fixed` entries suppress nothing).\n\n" + '\n'.join(rows) + "\n\n"
p = '/verif/DESIGN.md'; s = open(p).read()
i = s.index("### 7.4c Findings per property"); j = s.index("### 7.5 Seeded changes")
open(p, 'w').write(s[:i] + sec + s[j:])
print("7.4c rewritten:", len(rows) - 2, "properties")
