#!/bin/sh
# usage: revert_fix_check.sh <fix-commit> <property> [more properties]
# Regression of a repair: reverts one fix: commit on a scratch copy of /repo HEAD (contracts stay as they
# are now) and runs the given checks there. The check is expected to report the defect again (exit 1).
c="$1"; shift
S=/tmp/revscr.$c; V=/tmp/revver.$c
rm -rf $S $V; mkdir -p $S
git -C /repo archive HEAD | tar -x -C $S
(cd $S && git init -q . && git -C /repo show $c -- . ':!**/zz_contracts_verif.go' | git apply -R --whitespace=nowarn) || { echo "revert of $c does not apply"; rm -rf $S; exit 2; }
export GOFLAGS=-mod=mod GOPROXY=off GOSUMDB=off GOTOOLCHAIN=local
(cd $S && go build ./... >/dev/null 2>&1) || echo "note: reverted tree does not build"
mkdir -p $V/evidence $V/replays; ln -s /verif/specs $V/specs; ln -s /verif/known_findings.json $V/known_findings.json; ln -s /verif/replaytpl $V/replaytpl
for p in "$@"; do /verif/bin/govc check -prop $p -tier quick -fast -repo $S -verif $V > $V/out.$p 2>&1; rc=$?; grep "^VIOLATION\|ENGINE" $V/out.$p | head -2 | cut -c1-260; echo "reverted=$c property=$p exit=$rc"; done
[ -n "$KEEP" ] || rm -rf $S $V
