#!/bin/sh
# usage: run_seed.sh <seed-name> [property ...]   -- apply a seeded change to /repo, run checks, undo it.
seed="$1"; shift
props="$@"; [ -z "$props" ] && props=$(python3 -c "import json;print(json.load(open('/verif/seeded/$seed/meta.json'))['property'])")
git -C /repo diff --quiet || { echo "/repo has uncommitted changes"; exit 2; }
git -C /repo apply --whitespace=nowarn /verif/seeded/$seed/patch.diff || { echo "patch does not apply"; exit 2; }
for p in $props; do cp /verif/evidence/$p.json /tmp/evidence.$p.$$ 2>/dev/null; (cd /verif && ./check $p; echo "seed=$seed property=$p exit=$?"); cp /verif/evidence/$p.json /verif/seeded/$seed/evidence.$p.json 2>/dev/null; [ -f /tmp/evidence.$p.$$ ] && mv /tmp/evidence.$p.$$ /verif/evidence/$p.json; done
git -C /repo checkout -- .
