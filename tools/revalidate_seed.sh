#!/bin/sh
# usage: revalidate_seed.sh <seed-name>  -- re-confirms a stored seed against the current /repo in a scratch copy:
# compiles, pinned tests pass, demo fails with the patch and passes without. Updates meta.json "confirmed".
set -e
name="$1"; out=/verif/seeded/$name
export GOFLAGS=-mod=mod GOPROXY=off GOSUMDB=off GOTOOLCHAIN=local
target=$(python3 -c "import json;print(json.load(open('$out/meta.json'))['demo']['copy_to'])")
run=$(python3 -c "import json;print(json.load(open('$out/meta.json'))['demo']['run'])")
demo=$(ls $out/*_test.go.txt | head -1)
S=/tmp/seedval.$$; /verif/tools/scratch.sh $S
res_without=fail; res_with=pass; build=fail; base=fail
cp $demo $S/$target
if (cd $S && sh -c "$run -timeout 300s" >/tmp/seedval.$$.without.log 2>&1); then res_without=pass; fi
(cd $S && git init -q . 2>/dev/null; git -C $S apply --whitespace=nowarn $out/patch.diff)
if (cd $S && go build ./... >/dev/null 2>&1 && go build -tags verif ./... > /dev/null 2>&1); then build=ok; fi
if (cd $S && sh -c "$run -timeout 300s" >/tmp/seedval.$$.with.log 2>&1); then res_with=pass; else res_with=fail; fi
rm -f $S/$target
if python3 /verif/tools/baseline.py $S >/tmp/seedval.$$.base.log 2>&1; then base=pass; fi
tail -3 /tmp/seedval.$$.with.log > $out/demo_with_patch.log; tail -3 /tmp/seedval.$$.without.log > $out/demo_without_patch.log
python3 - "$out" "$build" "$base" "$res_with" "$res_without" <<'PY'
import json,sys
out,build,base,w,wo=sys.argv[1:6]
m=json.load(open(out+"/meta.json"))
m["confirmed"]={"compiles":build=="ok","pinned_tests_pass_with_patch":base=="pass","demo_with_patch":w,"demo_without_patch":wo}
m["revalidated"]="tools/revalidate_seed.sh on the current tree"
json.dump(m,open(out+"/meta.json","w"),indent=1); print(out, m["confirmed"])
PY
rm -rf $S /tmp/seedval.$$.*
