#!/usr/bin/env python3
# Sanity check before committing: every evidence file must come from a clean run of the unchanged tree.
import json,glob,sys
bad=0
for f in sorted(glob.glob('/verif/evidence/*.json')):
    e=json.load(open(f)); c=e.get('coverage',{})
    if c.get('obligations')!=c.get('discharged') or e.get('violations',0)!=0:
        print('STALE/VIOLATING evidence:',f,c.get('obligations'),c.get('discharged'),e.get('violations')); bad+=1
m=json.load(open('/verif/MANIFEST.json'))
ids={c['property_id'] for c in m['checks']} if 'checks' in m else set()
for i in ids:
    import os
    if not os.path.exists('/verif/evidence/%s.json'%i): print('missing evidence',i); bad+=1
print('evidence ok' if not bad else '%d problems'%bad); sys.exit(1 if bad else 0)
