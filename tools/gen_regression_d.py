import os,re,json,glob
rows=[]
for d in sorted(glob.glob('/verif/seeded/*-d')):
    s=os.path.basename(d)
    first=open(d+'/first_run.log').read() if os.path.exists(d+'/first_run.log') else ''
    f1='caught' if 'exit=1' in first else ('missed' if 'exit=0' in first else 'not run')
    obl1=re.findall(r'obligation=(\S+)', first)
    fin=''
    lf='/tmp/seedrun3/%s.log'%s
    if os.path.exists(lf):
        t=open(lf).read()
        lines=[l for l in t.splitlines() if l.startswith('VIOLATION') or 'exit=' in l]
        open(d+'/final_run.log','w').write('\n'.join(re.sub(r'/tmp/seedver[^ ]*/replays','replays',l)[:400] for l in lines)+'\n')
    if os.path.exists(d+'/final_run.log'):
        t=open(d+'/final_run.log').read()
        fin='caught' if 'exit=1' in t else ('missed' if 'exit=0' in t else 'error')
        obl2=re.findall(r'obligation=(\S+)', t)
    else:
        fin=f1+' (first run stands)'; obl2=obl1
    rows.append((s,f1,fin,'; '.join(o.split('/',1)[-1] if '/' in o else o for o in (obl2 or obl1)[:3])))
out=['# Fourth-round seeds (`*-d`) against the checks','',
 'First run: the checks as committed before the round (`first_run.log`). Final: the checks of the final tree, `tools/run_seed_scratch.sh -fast` (`final_run.log`; seeds caught at first and not re-run keep their first verdict).','',
 '| seed | first run | final | obligations reported (up to three) |','|---|---|---|---|']
for r in rows: out.append('| %s | %s | %s | %s |'%r)
open('/verif/seeded/REGRESSION-d.md','w').write('\n'.join(out)+'\n')
print('\n'.join(out))
