#!/bin/sh
# Builds govc offline from the sources in this directory and warms the Go build cache for /repo.
set -e
cd "$(dirname "$0")"
export GOFLAGS=-mod=mod GOPROXY=off GOSUMDB=off GOTOOLCHAIN=local
mkdir -p bin evidence replays
(cd govc && go build -o ../bin/govc ./cmd/govc)
(cd /repo && go build -tags verif ./... >/dev/null 2>&1 && go test -vet=off -count=1 -run '^$' ./internal/... ./workflow/... ./loadfile/... >/dev/null 2>&1) || true
echo "govc built"
