package main

import (
	"bytes"
	"context"
	"encoding/json"
	"fmt"
	"os"
	"os/exec"
	"path/filepath"
	"regexp"
	"strconv"
	"strings"
	"text/template"
	"time"

	"govc/internal/vc"
)

// Replay templates live in /verif/replaytpl/<name>.tmpl; /verif/replaytpl/index.json maps
// obligation-name regular expressions to a template and the package directory the
// generated in-package test is injected into (via go test -overlay; /repo is not written).
type replayRule struct {
	Match    string `json:"match"`
	Template string `json:"template"`
	Dir      string `json:"dir"`     // package directory relative to the repository
	Package  string `json:"package"` // package clause of the injected test file
	Race     bool   `json:"race"`
	Params   map[string]string `json:"params"`
}

type replayData struct {
	Obligation string
	Label      string
	Kind       string
	Goal       string
	Vars       map[string]string // parameter name -> Go literal
	Raw        map[string]string // parameter name -> SMT value
	Package    string
	Params     map[string]string
}

var fpRe = regexp.MustCompile(`^\(fp #b([01]) #b([01]+) #(b[01]+|x[0-9a-fA-F]+)\)$`)

// goLiteral renders an SMT model value as a Go expression.
func goLiteral(val string, sort vc.Sort) (string, bool) {
	val = strings.TrimSpace(val)
	switch sort {
	case vc.SInt:
		if strings.HasPrefix(val, "(- ") {
			return "-" + strings.TrimSuffix(strings.TrimPrefix(val, "(- "), ")"), true
		}
		if _, err := strconv.ParseInt(val, 10, 64); err == nil {
			return val, true
		}
	case vc.SBV64:
		if strings.HasPrefix(val, "#x") {
			u, err := strconv.ParseUint(val[2:], 16, 64)
			if err == nil {
				return fmt.Sprintf("int64(%d)", int64(u)), true
			}
		}
		if strings.HasPrefix(val, "#b") {
			u, err := strconv.ParseUint(val[2:], 2, 64)
			if err == nil {
				return fmt.Sprintf("int64(%d)", int64(u)), true
			}
		}
	case vc.SBool:
		if val == "true" || val == "false" {
			return val, true
		}
	case vc.SString:
		if len(val) >= 2 && val[0] == '"' {
			return strconv.Quote(unescapeSMT(val[1 : len(val)-1])), true
		}
	case vc.SF64:
		switch {
		case strings.Contains(val, "NaN"):
			return "math.NaN()", true
		case strings.Contains(val, "+oo"):
			return "math.Inf(1)", true
		case strings.Contains(val, "-oo"):
			return "math.Inf(-1)", true
		case strings.Contains(val, "+zero"):
			return "0.0", true
		case strings.Contains(val, "-zero"):
			return "math.Copysign(0, -1)", true
		}
		if m := fpRe.FindStringSubmatch(val); m != nil {
			bits := m[1] + m[2]
			if m[3][0] == 'b' {
				bits += m[3][1:]
			} else {
				for _, h := range m[3][1:] {
					n, _ := strconv.ParseUint(string(h), 16, 8)
					bits += fmt.Sprintf("%04b", n)
				}
			}
			u, err := strconv.ParseUint(bits, 2, 64)
			if err == nil && len(bits) == 64 {
				return fmt.Sprintf("math.Float64frombits(0x%016x)", u), true
			}
		}
	}
	return "", false
}

func unescapeSMT(s string) string {
	var b bytes.Buffer
	for i := 0; i < len(s); i++ {
		if s[i] == '"' && i+1 < len(s) && s[i+1] == '"' {
			b.WriteByte('"')
			i++
			continue
		}
		if s[i] == '\\' && i+2 < len(s) && s[i+1] == 'u' && s[i+2] == '{' {
			j := strings.IndexByte(s[i:], '}')
			if j > 0 {
				n, err := strconv.ParseUint(s[i+3:i+j], 16, 32)
				if err == nil {
					if n < 256 {
						b.WriteByte(byte(n))
					} else {
						b.WriteRune(rune(n))
					}
					i += j
					continue
				}
			}
		}
		b.WriteByte(s[i])
	}
	return b.String()
}

// writeReplay writes the replay file of a failed obligation and, when a replay
// template applies and the solver produced a model, runs the generated test against
// the real code. It returns the file path and whether the failure was confirmed.
func writeReplay(c *vc.Ctx, dir, prop, repo, verif string, ob *vc.Obligation, r vc.SolveResult) (string, bool) {
	path := filepath.Join(dir, sanitizeFile(ob.Name)+".txt")
	var b strings.Builder
	fmt.Fprintf(&b, "property: %s\nobligation: %s\nkind: %s\ngoal (must hold, could not be discharged): %s\nat: %s\nsolver: %s\nanswer: %s\n", prop, ob.Name, ob.Kind, ob.Goal, relPos(ob.Pos.String(), repo), r.Solver, r.Status)
	if len(r.All) > 0 {
		fmt.Fprintf(&b, "all solvers: %v\n", r.All)
	}
	if r.Detail != "" {
		fmt.Fprintf(&b, "detail: %s\n", r.Detail)
	}
	fmt.Fprintf(&b, "path: %s\n", strings.Join(ob.Trace, " > "))
	confirmed := false
	data := replayData{Obligation: ob.Name, Label: ob.Label, Kind: ob.Kind, Goal: ob.Goal, Vars: map[string]string{}, Raw: map[string]string{}}
	haveAll := r.Status == "sat" && r.Model != ""
	if r.Status == "sat" {
		fmt.Fprintf(&b, "\ncounterexample (inputs of the function under contract):\n")
		for _, mv := range ob.ModelVars {
			v := vc.ModelValue(r.Model, mv.Term)
			data.Raw[mv.Name] = v
			lit, ok := goLiteral(v, mv.Sort)
			if ok {
				data.Vars[mv.Name] = lit
			}
			fmt.Fprintf(&b, "  %s = %s", mv.Name, v)
			if ok {
				fmt.Fprintf(&b, "   (Go: %s)", lit)
			}
			b.WriteByte('\n')
		}
	} else {
		fmt.Fprintf(&b, "\nthe solver gave no model (answer %s): no failing input is available\n", r.Status)
	}
	// find a replay rule
	var rules []replayRule
	if raw, err := os.ReadFile(filepath.Join(verif, "replaytpl", "index.json")); err == nil {
		_ = json.Unmarshal(raw, &rules)
	}
	var rule *replayRule
	for i := range rules {
		if re, err := regexp.Compile(rules[i].Match); err == nil && re.MatchString(ob.Name) {
			rule = &rules[i]
			break
		}
	}
	if rule != nil && haveAll {
		out, failed, err := runReplay(repo, verif, rule, data)
		fmt.Fprintf(&b, "\nreplay template: %s (injected into %s with go test -overlay)\n", rule.Template, rule.Dir)
		if err != nil {
			fmt.Fprintf(&b, "replay could not be run: %v\n", err)
		} else {
			fmt.Fprintf(&b, "replay test %s on the real code:\n%s\n", map[bool]string{true: "FAILED (violation confirmed)", false: "passed (violation not reproduced with this input)"}[failed], indent(out))
			confirmed = failed
		}
	} else if rule == nil {
		fmt.Fprintf(&b, "\nno replay template applies to this obligation\n")
	}
	if !confirmed {
		fmt.Fprintf(&b, "\nresult: no-failing-input-found (the obligation is reported because it is discharged on the unchanged tree and is not any more)\n")
	}
	fmt.Fprintf(&b, "\n---- solver query (SMT-LIB) ----\n%s(check-sat)\n", ob.Query)
	if r.Model != "" {
		fmt.Fprintf(&b, "---- model ----\n%s\n", r.Model)
	}
	_ = os.WriteFile(path, []byte(b.String()), 0o644)
	return path, confirmed
}

func indent(s string) string {
	return "    " + strings.ReplaceAll(strings.TrimSpace(s), "\n", "\n    ")
}

func runReplay(repo, verif string, rule *replayRule, data replayData) (string, bool, error) {
	tplText, err := os.ReadFile(filepath.Join(verif, "replaytpl", rule.Template))
	if err != nil {
		return "", false, err
	}
	data.Package = rule.Package
	data.Params = map[string]string{}
	for k, v := range rule.Params {
		pt, err := template.New("param").Option("missingkey=error").Parse(v)
		if err != nil {
			return "", false, err
		}
		var pb bytes.Buffer
		if err := pt.Execute(&pb, data); err != nil {
			return "", false, fmt.Errorf("model does not provide every input the template needs: %v", err)
		}
		data.Params[k] = pb.String()
	}
	funcs := template.FuncMap{
		"has": func(m map[string]string, k string) bool { _, ok := m[k]; return ok },
	}
	tpl, err := template.New("replay").Funcs(funcs).Option("missingkey=error").Parse(string(tplText))
	if err != nil {
		return "", false, err
	}
	var src bytes.Buffer
	if err := tpl.Execute(&src, data); err != nil {
		return "", false, fmt.Errorf("model does not provide every input the template needs: %v", err)
	}
	tmp, err := os.MkdirTemp("", "govc-replay")
	if err != nil {
		return "", false, err
	}
	defer os.RemoveAll(tmp)
	testFile := filepath.Join(tmp, "zz_govc_replay_test.go")
	if err := os.WriteFile(testFile, src.Bytes(), 0o644); err != nil {
		return "", false, err
	}
	ov := map[string]map[string]string{"Replace": {filepath.Join(repo, rule.Dir, "zz_govc_replay_test.go"): testFile}}
	ovData, _ := json.Marshal(ov)
	ovFile := filepath.Join(tmp, "overlay.json")
	_ = os.WriteFile(ovFile, ovData, 0o644)
	args := []string{"test", "-overlay", ovFile, "-vet=off", "-count=1", "-timeout", "60s", "-run", "^TestGovcReplay$"}
	if rule.Race {
		args = append(args, "-race")
	}
	args = append(args, "./"+rule.Dir)
	ctx, cancel := context.WithTimeout(context.Background(), 180*time.Second)
	defer cancel()
	cmd := exec.CommandContext(ctx, "go", args...)
	cmd.Dir = repo
	cmd.Env = append(os.Environ(), "GOFLAGS=-mod=mod", "GOPROXY=off", "GOSUMDB=off", "GOTOOLCHAIN=local")
	var out bytes.Buffer
	cmd.Stdout = &out
	cmd.Stderr = &out
	runErr := cmd.Run()
	text := out.String()
	if len(text) > 4000 {
		text = text[:4000] + "\n...[truncated]"
	}
	if strings.Contains(text, "[build failed]") || strings.Contains(text, "[setup failed]") {
		return text, false, fmt.Errorf("replay test did not build")
	}
	return "generated test:\n" + src.String() + "\noutput:\n" + text, runErr != nil, nil
}
