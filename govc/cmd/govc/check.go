package main

import (
	"crypto/sha256"
	"encoding/hex"
	"encoding/json"
	"flag"
	"fmt"
	"os"
	"path/filepath"
	"regexp"
	"sort"
	"strconv"
	"strings"
	"time"

	"govc/internal/vc"
)

// Plan: what a property check verifies.
type Unit struct {
	Func    string `json:"func,omitempty"`    // function key relative to the module: "internal/pkg::name"
	Lemma   string `json:"lemma,omitempty"`   // lemma name
	Builtin string `json:"builtin,omitempty"` // constructor of a built-in expression function (schema-derived contract)
	Mode    string `json:"mode,omitempty"`    // "" (mathematical integers) | "bv" (64-bit machine integers)
	Sweep   string `json:"sweep,omitempty"`   // package path: zero-annotation panic sweep of every function in it
}

type Unclaimed struct {
	Match  string `json:"match"`
	Reason string `json:"reason"`
}

type Plan struct {
	Packages   []string    `json:"packages"`
	Units      []Unit      `json:"units"`
	Unclaimed  []Unclaimed `json:"unclaimed"`
	DeadCalls  []Unclaimed `json:"dead_calls"` // calls in code the contracts make unreachable: their reachability guard is expected to be refuted
	Decided    []string    `json:"decided"`
	NotDecided []string    `json:"not_decided"`
	Trusted    []string    `json:"trusted"`
	Kinds      []string    `json:"kinds"` // restrict claimed obligations to these kinds (empty = all)
	Claim      []string    `json:"claim"` // restrict claimed obligations to names matching one of these patterns (empty = all)
}

type Finding struct {
	Property   string `json:"property"`
	Obligation string `json:"obligation"`
	Status     string `json:"status"` // finding | fixed
	Commit     string `json:"commit,omitempty"`
	What       string `json:"what"`
	Residual   string `json:"residual,omitempty"` // spec expression: the failing cases excused by this finding
	Line       string `json:"line,omitempty"`
	// Observed: a defect of the unchanged tree that was demonstrated against the real code (demo under
	// hunted/) but that no obligation of this property's check decides (it lies in an assumed contract
	// of a dependency, or needs an ordering the monitor model does not explore). It is listed so that it
	// is known, it suppresses nothing, and it is identified by ID (input / call site in What).
	Observed string `json:"observed,omitempty"`
	Demo     string `json:"demo,omitempty"`
}

type FindingsFile struct {
	Findings []Finding `json:"findings"`
}

func cmdCheck(args []string) int {
	fs := flag.NewFlagSet("check", flag.ExitOnError)
	repo := fs.String("repo", "/repo", "repository")
	verif := fs.String("verif", "/verif", "verification directory")
	prop := fs.String("prop", "", "property id")
	tier := fs.String("tier", "quick", "quick | thorough")
	fast := fs.Bool("fast", false, "development aid for seed regressions: 10 s per query, no retries (an undecided obligation still counts as not discharged)")
	list := fs.Bool("list", false, "print the name of every claimed obligation (CLAIMED <name>)")
	seed := fs.Int("seed", 0, "seed")
	_ = fs.Parse(args)
	if s := os.Getenv("VERIF_SEED"); s != "" {
		if n, err := strconv.Atoi(s); err == nil {
			*seed = n
		}
	}
	if t := os.Getenv("VERIF_TIER"); t == "quick" || t == "thorough" {
		if !flagSet(fs, "tier") {
			*tier = t
		}
	}
	t0 := time.Now()
	engineErr := func(format string, a ...any) int {
		fmt.Printf("ENGINE-ERROR property=%s "+format+"\n", append([]any{*prop}, a...)...)
		return 2
	}
	plans := map[string]*Plan{}
	data, err := os.ReadFile(filepath.Join(*verif, "specs", "props.json"))
	if err != nil {
		return engineErr("%v", err)
	}
	if err := json.Unmarshal(data, &plans); err != nil {
		return engineErr("props.json: %v", err)
	}
	plan := plans[*prop]
	if plan == nil {
		return engineErr("no plan for property")
	}
	var ff FindingsFile
	if data, err := os.ReadFile(filepath.Join(*verif, "known_findings.json")); err == nil {
		if err := json.Unmarshal(data, &ff); err != nil {
			return engineErr("known_findings.json: %v", err)
		}
	}
	c, err := vc.Load(*repo, plan.Packages)
	if err != nil {
		fmt.Println(err)
		return engineErr("cannot load packages (does the tree compile with -tags verif?)")
	}
	if err := c.LoadExternSpecs(filepath.Join(*verif, "specs", "extern")); err != nil {
		fmt.Println(err)
		return engineErr("extern specs")
	}
	if err := c.LoadRepoSpecs(); err != nil {
		fmt.Println(err)
		if strings.Contains(err.Error(), "CONTRACT-ERROR") && !strings.Contains(err.Error(), "syntax") {
			// A contract names something the code no longer has (a field, a function, a type): what the
			// contracts of this package carried was established on the unchanged tree and cannot be
			// established any more. Same policy as for a function or instruction site that is gone.
			replayDir := filepath.Join(*verif, "replays", *prop)
			_ = os.MkdirAll(replayDir, 0o755)
			path := filepath.Join(replayDir, "contract-mismatch-load.txt")
			_ = os.WriteFile(path, []byte("property: "+*prop+"\nobligation: contract-mismatch\n\nThe contract files of /repo no longer fit the code (they name a field, function or type that is gone).\nNone of the obligations of this property can be generated.\n\nverifier output:\n"+err.Error()+"\n\nresult: no-failing-input-found\n"), 0o644)
			fmt.Printf("VIOLATION property=%s replay=%s obligation=contract-mismatch[load] solver=none answer=contract-does-not-fit-the-code no-failing-input-found\n", *prop, path)
			return 1
		}
		return engineErr("contract files")
	}
	for _, f := range ff.Findings {
		if f.Property == *prop && f.Status == "finding" && f.Residual != "" {
			c.FindingResidual[f.Obligation] = f.Residual
		}
	}
	cbv := c.Fork(true)
	loadS := time.Since(t0).Seconds()

	type unitRep struct {
		unit Unit
		rep  *vc.FuncReport
	}
	var reps []unitRep
	var mismatches []string
	mismatches = append(mismatches, c.Mismatch...)
	var all []*vc.Obligation
	funcHashes := map[string]string{}
	usedExtern := map[string]bool{}
	usedModular := map[string]bool{}
	for _, u := range plan.Units {
		ctx := c
		if u.Mode == "bv" {
			ctx = cbv
		}
		var units []Unit
		if u.Sweep != "" {
			for _, k := range ctx.FunctionsOfPackage(ctx.ModulePath + strings.TrimPrefix("/"+u.Sweep, "/.")) {
				units = append(units, Unit{Func: k, Mode: u.Mode})
			}
		} else {
			units = []Unit{u}
		}
		for _, u := range units {
			var rep *vc.FuncReport
			var err error
			switch {
			case u.Func != "":
				key := u.Func
				if !strings.HasPrefix(key, ctx.ModulePath) {
					key = ctx.ModulePath + "/" + u.Func
					key = strings.Replace(key, "/::", "::", 1)
				}
				rep, err = ctx.VerifyFunction(key)
				if err == nil {
					funcHashes[rep.Name] = ctx.SourceHash(key)
				}
			case u.Lemma != "":
				rep, err = ctx.VerifyLemma(u.Lemma)
			case u.Builtin != "":
				key := ctx.ModulePath + "/" + u.Builtin
				rep, err = ctx.VerifyBuiltin(key)
				if err == nil {
					funcHashes[rep.Name] = ctx.SourceHash(key)
				}
			}
			if err != nil {
				fmt.Println(err)
				if strings.Contains(err.Error(), "CONTRACT-ERROR") || strings.Contains(err.Error(), "no function") || strings.Contains(err.Error(), "unknown function") {
					// the contract no longer fits the code: what it was to establish is not established
					mismatches = append(mismatches, fmt.Sprintf("%s: %v", u.Func+u.Lemma+u.Builtin, err))
					continue
				}
				return engineErr("verification of unit %+v could not be set up", u)
			}
			if rep.Aborted != "" {
				return engineErr("unit %s aborted: %s", rep.Name, rep.Aborted)
			}
			for k := range rep.Extern {
				usedExtern[k] = true
			}
			for k := range rep.Modular {
				usedModular[k] = true
			}
			reps = append(reps, unitRep{u, rep})
			all = append(all, rep.Obligations...)
		}
	}
	for _, ctx := range []*vc.Ctx{c, cbv} {
		for _, e := range ctx.Errors {
			fmt.Println(e)
			mismatches = append(mismatches, e)
		}
	}
	if len(all) == 0 && len(mismatches) == 0 {
		return engineErr("no obligations generated")
	}
	opts := vc.SolverOpts{TimeoutSec: 30, FirstTimeout: 4, Workers: 16, Seed: *seed, WantModel: true}
	if *fast {
		opts.TimeoutSec = 10
	}
	if *tier == "thorough" {
		opts.TimeoutSec = 120
		opts.AllAgree = true
		opts.Workers = 5
	}
	tS := time.Now()
	// obligations that are generated but not claimed are only given a short time
	var unclaimedEarly []*regexp.Regexp
	for _, u := range plan.Unclaimed {
		if re, err := regexp.Compile(u.Match); err == nil {
			unclaimedEarly = append(unclaimedEarly, re)
		}
	}
	// obligations of kinds that belong to other properties' claims are not decided here
	otherKinds := 0
	var claimRe []*regexp.Regexp
	for _, p := range plan.Claim {
		re, err := regexp.Compile(p)
		if err != nil {
			return engineErr("bad claim pattern %q", p)
		}
		claimRe = append(claimRe, re)
	}
	// what a claimed obligation of a function rests on is claimed with it: the loop invariants it
	// assumes, the preconditions of the callees whose postconditions it uses, the lock and channel
	// invariants it assumes at Lock / receive
	supporting := map[string]bool{"inv-establish": true, "inv-preserve": true, "pre": true, "lockinv": true, "chaninv": true, "dispatch": true}
	funcOf := func(name string) string {
		if i := strings.Index(name, "/"); i >= 0 {
			return name[:i]
		}
		return name
	}
	claimedFuncs := map[string]bool{}
	if len(claimRe) > 0 {
		for _, ob := range all {
			if ob.Kind == "cover" {
				continue
			}
			kindOK := len(plan.Kinds) == 0
			for _, k := range plan.Kinds {
				if k == ob.Kind {
					kindOK = true
				}
			}
			if !kindOK {
				continue
			}
			for _, re := range claimRe {
				if re.MatchString(ob.Name) {
					claimedFuncs[funcOf(ob.Name)] = true
				}
			}
		}
	}
	var dropped []*vc.Obligation // obligations of other properties' kinds: consulted only to explain a refuted reachability guard
	if len(plan.Kinds) > 0 || len(claimRe) > 0 {
		var kept []*vc.Obligation
		for _, ob := range all {
			if len(claimRe) > 0 && supporting[ob.Kind] && claimedFuncs[funcOf(ob.Name)] {
				kept = append(kept, ob)
				continue
			}
			ok := len(plan.Kinds) == 0
			for _, k := range plan.Kinds {
				if k == ob.Kind {
					ok = true
				}
			}
			if ok && len(claimRe) > 0 {
				ok = false
				for _, re := range claimRe {
					if re.MatchString(ob.Name) {
						ok = true
					}
				}
			}
			if ob.Cover {
				ok = true
			}
			if ok {
				kept = append(kept, ob)
			} else {
				otherKinds++
				dropped = append(dropped, ob)
			}
		}
		all = kept
	}
	var claimedObs, otherObs []*vc.Obligation
	for _, ob := range all {
		isU := false
		for _, re := range unclaimedEarly {
			if re.MatchString(ob.Name) {
				isU = true
			}
		}
		for i := range ff.Findings {
			f := &ff.Findings[i]
			if f.Property == *prop && f.Status == "finding" && f.Obligation == ob.Name && f.Residual == "" {
				isU = true // a listed finding without residual is expected to fail: no need for the long timeout
			}
		}
		if isU || ob.Cover {
			otherObs = append(otherObs, ob)
		} else {
			claimedObs = append(claimedObs, ob)
		}
	}
	res := vc.SolveAll(claimedObs, opts)
	// an obligation that was not decided (timeout / unknown, no counterexample) is tried again with
	// other solver seeds and twice the time before it is reported: solver search is not deterministic
	// under load, and a timeout alone is not evidence of a violation
	retried := 0
	if *tier == "quick" && !*fast {
		var again []*vc.Obligation
		for _, ob := range claimedObs {
			if r := res[ob]; r.Status != "unsat" && r.Status != "sat" {
				again = append(again, ob)
			}
		}
		for attempt := 1; attempt <= 2 && len(again) > 0 && len(again) <= 40; attempt++ {
			o2 := opts
			o2.Seed = opts.Seed + attempt*7
			o2.TimeoutSec = opts.TimeoutSec * 2
			o2.FirstTimeout = opts.TimeoutSec
			r2 := vc.SolveAll(again, o2)
			var still []*vc.Obligation
			for _, ob := range again {
				retried++
				if r := r2[ob]; r.Status == "unsat" || r.Status == "sat" {
					res[ob] = r
				} else {
					still = append(still, ob)
				}
			}
			again = still
		}
	}
	// reachability guards: one cheap attempt on the first sampled path of each call; the other
	// samples are consulted only where the first one was refuted
	{
		first := map[string]bool{}
		var stage1, stage2, rest []*vc.Obligation
		for _, ob := range otherObs {
			if !ob.Reach {
				rest = append(rest, ob)
			} else if !first[ob.Name] {
				first[ob.Name] = true
				stage1 = append(stage1, ob)
			} else {
				stage2 = append(stage2, ob)
			}
		}
		otherObs = rest
		o2 := opts
		o2.TimeoutSec, o2.FirstTimeout, o2.AllAgree, o2.Single, o2.Batch = 2, 2, false, true, false
		refuted := map[string]bool{}
		for ob, r := range vc.SolveAll(stage1, o2) {
			res[ob] = r
			if r.Status == "unsat" {
				refuted[ob.Name] = true
			}
		}
		var again []*vc.Obligation
		for _, ob := range stage2 {
			if refuted[ob.Name] {
				again = append(again, ob)
			} else {
				res[ob] = vc.SolveResult{Status: "skipped", Solver: "none"}
			}
		}
		for ob, r := range vc.SolveAll(again, o2) {
			res[ob] = r
		}
		// a refuted sample whose state was contradictory before the call already is a call in
		// dead code (e.g. the default branch of an exhaustive switch), not a vacuity
		var pres []*vc.Obligation
		back := map[*vc.Obligation]*vc.Obligation{}
		for _, ob := range append(append([]*vc.Obligation{}, stage1...), again...) {
			if res[ob].Status == "unsat" && ob.PreQuery != "" {
				p := &vc.Obligation{Name: ob.Name + "/before", Kind: "reach", Query: ob.PreQuery, Cover: true}
				pres = append(pres, p)
				back[p] = ob
			}
		}
		for p, r := range vc.SolveAll(pres, o2) {
			if r.Status == "unsat" {
				x := res[back[p]]
				x.Status = "dead"
				res[back[p]] = x
			}
		}
	}
	if len(otherObs) > 0 {
		o2 := opts
		o2.TimeoutSec, o2.FirstTimeout, o2.AllAgree = 4, 4, false
		for ob, r := range vc.SolveAll(otherObs, o2) {
			res[ob] = r
		}
	}
	solveS := time.Since(tS).Seconds()

	// aggregate by obligation name
	type agg struct {
		name    string
		kind    string
		obs     []*vc.Obligation
		bad     []*vc.Obligation
		secs    float64
		solvers map[string]int
		cover   bool
		reach, reachable, vacuous bool
	}
	byName := map[string]*agg{}
	var names []string
	solverCount := map[string]int{}
	solverSecs := 0.0
	maxSecs := 0.0
	seenQ := map[string]bool{}
	for _, ob := range all {
		a := byName[ob.Name]
		if a == nil {
			a = &agg{name: ob.Name, kind: ob.Kind, solvers: map[string]int{}, cover: ob.Cover}
			byName[ob.Name] = a
			names = append(names, ob.Name)
		}
		r := res[ob]
		a.obs = append(a.obs, ob)
		a.solvers[r.Solver]++
		h := vc.QueryHash(ob.Query)
		if !seenQ[h] {
			seenQ[h] = true
			solverCount[r.Solver]++
			solverSecs += r.Seconds
			if r.Seconds > maxSecs {
				maxSecs = r.Seconds
			}
			a.secs += r.Seconds
		}
		if r.Status == "disagree" {
			return engineErr("solvers disagree on %s: %v", ob.Name, r.All)
		}
		ok := r.Status == "unsat"
		if ob.Cover {
			ok = r.Status == "sat"
		}
		if ob.Reach {
			a.reach = true
			if r.Status != "unsat" && r.Status != "dead" {
				a.reachable = true
			}
			if r.Status == "unsat" {
				a.vacuous = true
			}
		}
		if !ok {
			a.bad = append(a.bad, ob)
		}
	}
	var unclaimedRe []*regexp.Regexp
	for _, u := range plan.Unclaimed {
		re, err := regexp.Compile(u.Match)
		if err != nil {
			return engineErr("bad unclaimed pattern %q", u.Match)
		}
		unclaimedRe = append(unclaimedRe, re)
	}
	kindOK := func(k string) bool {
		if len(plan.Kinds) == 0 || k == "cover" || k == "reach" {
			return true
		}
		for _, x := range plan.Kinds {
			if x == k {
				return true
			}
		}
		return false
	}
	findingFor := func(name string) *Finding {
		for i := range ff.Findings {
			f := &ff.Findings[i]
			if f.Property == *prop && f.Status == "finding" && f.Obligation == name {
				return f
			}
		}
		return nil
	}
	claimed, discharged, violations := 0, 0, 0
	var undecided []map[string]any
	var knownLines []string
	var coverNotRefuted []string
	reachGuards := 0
	var samples []map[string]any
	replayDir := filepath.Join(*verif, "replays", *prop)
	_ = os.MkdirAll(replayDir, 0o755)
	seenFinding := map[string]bool{}
	// contracts that no longer fit the code: the obligations they carried cannot be established
	for i, mm := range mismatches {
		violations++
		claimed++
		path := filepath.Join(replayDir, fmt.Sprintf("contract-mismatch-%d.txt", i+1))
		_ = os.WriteFile(path, []byte("property: "+*prop+"\nobligation: contract-mismatch\n\nA contract of this property's functions no longer fits the code of /repo (a function or an\ninstruction site it is attached to is gone, or a clause no longer evaluates). The obligations it\ncarried were discharged on the unchanged tree and cannot be established any more.\n\nverifier output:\n"+mm+"\n\nresult: no-failing-input-found\n"), 0o644)
		fmt.Printf("VIOLATION property=%s replay=%s obligation=contract-mismatch[%d] solver=none answer=contract-does-not-fit-the-code no-failing-input-found\n", *prop, path, i+1)
	}
	sort.Strings(names)
	for _, n := range names {
		a := byName[n]
		isUnclaimed := ""
		for i, re := range unclaimedRe {
			if re.MatchString(n) {
				isUnclaimed = plan.Unclaimed[i].Reason
			}
		}
		if !kindOK(a.kind) && !(len(claimRe) > 0 && supporting[a.kind] && claimedFuncs[funcOf(n)]) {
			isUnclaimed = "obligation kind " + a.kind + " is not part of this property's claim"
		}
		if isUnclaimed != "" {
			st := "discharged"
			if len(a.bad) > 0 {
				st = res[a.bad[0]].Status
			}
			undecided = append(undecided, map[string]any{"obligation": n, "status": st, "reason": isUnclaimed})
			continue
		}
		if a.cover {
			// vacuity guard: a contradictory precondition is an engine/contract error. A solver
			// that neither finds a model nor a contradiction (quantified preconditions) leaves the
			// guard "not refuted": recorded, not counted as an obligation.
			refuted := false
			for _, b := range a.bad {
				if res[b].Status == "unsat" {
					refuted = true
				}
			}
			if a.reach {
				// reachability guard after a call: vacuous only when no sampled path stays satisfiable
				dead := false
				for _, d := range plan.DeadCalls {
					if re, err := regexp.Compile(d.Match); err == nil && re.MatchString(n) {
						dead = true
					}
				}
				if dead {
					continue
				}
				if !a.reachable && !a.vacuous {
					continue // every sampled path was contradictory before the call: dead code
				}
				if !a.reachable {
					// an assertion that failed earlier in the same function is assumed from there on
					// and may itself make the rest of the path contradictory: the failed obligation
					// is what gets reported (or is a listed finding / documented as unclaimed)
					explained := false
					for _, n2 := range names {
						if a2 := byName[n2]; !a2.cover && len(a2.bad) > 0 && funcOf(n2) == funcOf(n) {
							explained = true
						}
					}
					for i := range ff.Findings {
						if f := &ff.Findings[i]; f.Status == "finding" && funcOf(f.Obligation) == funcOf(n) {
							explained = true // listed under some property: assumed after its site on this path
						}
					}
					if !explained {
						var same []*vc.Obligation
						for _, ob := range dropped {
							if funcOf(ob.Name) == funcOf(n) && !ob.Cover {
								same = append(same, ob)
							}
						}
						o2 := opts
						o2.TimeoutSec, o2.FirstTimeout, o2.AllAgree = 4, 4, false
						for _, r := range vc.SolveAll(same, o2) {
							if r.Status != "unsat" {
								explained = true
							}
						}
					}
					if explained {
						continue
					}
					return engineErr("vacuity: %s: the state after the call is unsatisfiable on every sampled path (contradictory assumed contract, or a call in dead code: list it under dead_calls)", n)
				}
				reachGuards++
				continue
			}
			if refuted {
				return engineErr("vacuity: %s is unsatisfiable (contradictory precondition)", n)
			}
			if len(a.bad) > 0 {
				coverNotRefuted = append(coverNotRefuted, n)
				continue
			}
			claimed++
			discharged++
			continue
		}
		if f := findingFor(n); f != nil {
			seenFinding[n] = true
			if len(a.bad) == 0 {
				// the listed defect is gone: the obligation is simply discharged now
				claimed++
				discharged++
				knownLines = append(knownLines, fmt.Sprintf("NOTE: listed finding no longer reproduces: property=%s %s", *prop, n))
				continue
			}
			knownLines = append(knownLines, fmt.Sprintf("KNOWN-FINDING: property=%s %s %s", *prop, n, f.What))
			undecided = append(undecided, map[string]any{"obligation": n, "status": "known-finding", "reason": f.What})
			continue
		}
		claimed++
		if *list {
			fmt.Printf("CLAIMED %s\n", n)
		}
		if len(a.bad) == 0 {
			discharged++
			if len(samples) < 6 {
				ob := a.obs[0]
				samples = append(samples, map[string]any{"obligation": n, "goal": ob.Goal, "at": relPos(ob.Pos.String(), *repo), "queries": len(a.obs), "solver": res[ob].Solver, "seconds": round3(a.secs)})
			}
			continue
		}
		violations++
		ob := a.bad[0]
		// prefer a sat answer (with model) among the failing queries
		for _, b := range a.bad {
			if res[b].Status == "sat" {
				ob = b
				break
			}
		}
		r := res[ob]
		path, confirmed := writeReplay(c, replayDir, *prop, *repo, *verif, ob, r)
		suffix := ""
		if !confirmed {
			suffix = " no-failing-input-found"
		}
		fmt.Printf("VIOLATION property=%s replay=%s obligation=%s solver=%s answer=%s%s\n", *prop, path, n, r.Solver, r.Status, suffix)
		fmt.Printf("  goal: %s\n  at: %s\n", ob.Goal, relPos(ob.Pos.String(), *repo))
	}
	for i := range ff.Findings {
		f := &ff.Findings[i]
		if f.Property == *prop && f.Status == "finding" && f.Observed != "" {
			knownLines = append(knownLines, fmt.Sprintf("KNOWN-FINDING: property=%s observed[%s] %s (demo: %s)", *prop, f.Observed, f.What, f.Demo))
		}
	}
	// a listed finding whose obligation no longer exists is a stale list entry, not an error
	for _, l := range knownLines {
		fmt.Println(l)
	}
	// evidence
	var fnList []map[string]any
	for _, ur := range reps {
		fnList = append(fnList, map[string]any{"unit": ur.rep.Name, "mode": map[bool]string{true: "64-bit machine integers", false: "mathematical integers"}[ur.unit.Mode == "bv"],
			"paths": ur.rep.Paths, "returns": ur.rep.Returns, "obligation_queries": len(ur.rep.Obligations), "source_sha256": funcHashes[ur.rep.Name]})
	}
	trusted := []string{
		"go/ssa (golang.org/x/tools v0.29.0) translation of the Go sources to SSA",
		"SMT solvers z3 5.1.0, z3 4.8.12, cvc5 1.0.3 (first definite answer; sat/unsat disagreement aborts the check)",
		"strings are sequences of bytes modelled by the SMT string theory; interior pointers to struct fields are not written through",
		"termination of loops and calls is not proved (partial correctness)",
	}
	if containsMode(plan.Units, "") {
		trusted = append(trusted, "integers: mathematical (no overflow obligations) for units in mode 'mathematical integers'")
	}
	for _, k := range sortedKeysB(usedExtern) {
		trusted = append(trusted, "assumed contract / default model of external function: "+k)
	}
	trusted = append(trusted, plan.Trusted...)
	var modular []string
	for _, k := range sortedKeysB(usedModular) {
		modular = append(modular, c.ShortName(k))
	}
	ev := map[string]any{
		"property_id": *prop,
		"tier":        *tier,
		"seed":        *seed,
		"level":       "proof",
		"coverage": map[string]any{
			"obligations":     claimed,
			"discharged":      discharged,
			"checker_cmd":     fmt.Sprintf("govc check -prop %s -tier %s (VC generation over go/ssa of %s; solvers z3-new/z3/cvc5 via stdin)", *prop, *tier, *repo),
			"trusted_base":    trusted,
			"samples":         samples,
			"functions_under_contract": fnList,
			"callee_contracts_used":    modular,
			"queries":         len(seenQ),
			"queries_by_backend": solverCount,
			"solver_seconds":  round3(solverSecs),
			"slowest_query_s": round3(maxSecs),
			"load_seconds":    round3(loadS),
			"solve_wall_seconds": round3(solveS),
			"generated_not_claimed": undecided,
			"known_findings":  knownLines,
			"vacuity_guards_not_refuted_but_no_model_found": coverNotRefuted,
			"reachability_guards_after_calls_passed":         reachGuards,
			"obligation_queries_of_other_kinds_not_decided_here": otherKinds,
			"queries_retried_with_other_seeds":                 retried,
			"decided_clauses": plan.Decided,
			"not_decided":     plan.NotDecided,
			"assumption_scan": scanAssumptions(c),
		},
		"assumptions": trusted,
		"wall_s":      round3(time.Since(t0).Seconds()),
		"violations":  violations,
	}
	out, _ := json.MarshalIndent(ev, "", " ")
	_ = os.MkdirAll(filepath.Join(*verif, "evidence"), 0o755)
	if err := os.WriteFile(filepath.Join(*verif, "evidence", *prop+".json"), out, 0o644); err != nil {
		return engineErr("cannot write evidence: %v", err)
	}
	fmt.Printf("property=%s tier=%s units=%d obligations(claimed)=%d discharged=%d known-findings=%d not-claimed=%d queries=%d slowest=%.2fs wall=%.1fs\n",
		*prop, *tier, len(reps), claimed, discharged, len(knownLines), len(undecided), len(seenQ), maxSecs, time.Since(t0).Seconds())
	if violations > 0 {
		return 1
	}
	return 0
}

func flagSet(fs *flag.FlagSet, name string) bool {
	set := false
	fs.Visit(func(f *flag.Flag) {
		if f.Name == name {
			set = true
		}
	})
	return set
}

func containsMode(us []Unit, m string) bool {
	for _, u := range us {
		if u.Mode == m {
			return true
		}
	}
	return false
}

func sortedKeysB(m map[string]bool) []string {
	var ks []string
	for k := range m {
		ks = append(ks, k)
	}
	sort.Strings(ks)
	return ks
}

func round3(f float64) float64 { return float64(int(f*1000+0.5)) / 1000 }

func relPos(p, repo string) string {
	return strings.TrimPrefix(p, repo+"/")
}

// scanAssumptions lists every assumed (extern / interface) contract and option that
// weakens a proof obligation, mechanically, from the loaded spec files.
func scanAssumptions(c *vc.Ctx) []string {
	var out []string
	for _, sf := range c.SpecFiles {
		n := 0
		for _, ct := range sf.Contracts {
			if ct.Extern || ct.Opts["iface"] != "" || ct.Opts["trusted"] != "" {
				n++
			}
		}
		if n > 0 {
			out = append(out, fmt.Sprintf("%s: %d assumed contracts", filepath.Base(sf.Path), n))
		}
	}
	sort.Strings(out)
	return out
}

func hashText(s string) string {
	h := sha256.Sum256([]byte(s))
	return hex.EncodeToString(h[:])
}
