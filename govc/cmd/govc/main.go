// govc: contract-based deductive verifier for the Go functions of arcaflow-engine.
package main

import (
	"os/exec"
	"flag"
	"fmt"
	"os"
	"sort"
	"strings"
	"time"

	"govc/internal/vc"
)

func main() {
	if len(os.Args) < 2 {
		fmt.Fprintln(os.Stderr, "usage: govc <vc|check> ...")
		os.Exit(2)
	}
	switch os.Args[1] {
	case "vc":
		cmdVC(os.Args[2:])
	case "check":
		os.Exit(cmdCheck(os.Args[2:]))
	default:
		fmt.Fprintln(os.Stderr, "unknown command", os.Args[1])
		os.Exit(2)
	}
}

// cmdVC: developer command; verifies the named functions and prints every obligation.
func cmdVC(args []string) {
	fs := flag.NewFlagSet("vc", flag.ExitOnError)
	repo := fs.String("repo", "/repo", "repository")
	pkgs := fs.String("pkgs", "", "comma separated package patterns")
	funcs := fs.String("funcs", "", "comma separated function keys (relative names; pkgpath::name also accepted)")
	extern := fs.String("extern", "/verif/specs/extern", "directory of assumed contracts")
	timeout := fs.Int("timeout", 10, "solver timeout (s)")
	split := fs.Bool("split", false, "for failed obligations whose goal is a conjunction: check each conjunct and report the ones not discharged (diagnostics)")
	dump := fs.String("dump", "", "write the queries of obligations whose name contains this string to /tmp/govc-dump")
	verbose := fs.Bool("v", false, "print discharged obligations too")
	model := fs.Bool("model", false, "ask for models")
	lemmas := fs.String("lemmas", "", "comma separated lemma names")
	bv := fs.Bool("bv", false, "machine integers (64-bit vectors)")
	ssaDump := fs.Bool("ssa", false, "print the SSA of the functions instead of verifying")
	siteDiff := fs.Bool("sitediff", false, "list the sites whose ordinal differs between the historical and the strict total order")
	_ = fs.Parse(args)
	t0 := time.Now()
	c, err := vc.Load(*repo, strings.Split(*pkgs, ","))
	if err != nil {
		fmt.Fprintln(os.Stderr, err)
		os.Exit(2)
	}
	if err := c.LoadExternSpecs(*extern); err != nil {
		fmt.Fprintln(os.Stderr, err)
		os.Exit(2)
	}
	if err := c.LoadRepoSpecs(); err != nil {
		fmt.Fprintln(os.Stderr, err)
		os.Exit(2)
	}
	if *siteDiff {
		for _, l := range c.SiteOrderDiff() {
			fmt.Println(l)
		}
		return
	}
	if *bv {
		c = c.Fork(true)
	}
	fmt.Printf("loaded in %.1fs, %d functions\n", time.Since(t0).Seconds(), len(c.Funcs))
	var keys []string
	for _, f := range strings.Split(*funcs, ",") {
		f = strings.TrimSpace(f)
		if f == "" {
			continue
		}
		found := false
		for k := range c.Funcs {
			if k == f || strings.HasSuffix(k, "::"+f) {
				keys = append(keys, k)
				found = true
			}
		}
		if !found {
			fmt.Fprintln(os.Stderr, "no function matches", f)
			var cands []string
			for k := range c.Funcs {
				if strings.Contains(k, strings.Trim(f, "()*")) {
					cands = append(cands, k)
				}
			}
			sort.Strings(cands)
			for _, k := range cands {
				fmt.Fprintln(os.Stderr, "   candidate:", k)
			}
			os.Exit(2)
		}
	}
	sort.Strings(keys)
	if *ssaDump {
		for _, k := range keys {
			c.Funcs[k].WriteTo(os.Stdout)
			fmt.Println("# instruction sites (class#ordinal at line):")
			for _, l := range c.SiteList(c.Funcs[k]) {
				fmt.Println("#  " + l)
			}
		}
		return
	}
	var all []*vc.Obligation
	for _, k := range keys {
		rep, err := c.VerifyFunction(k)
		if err != nil {
			fmt.Fprintln(os.Stderr, err)
			os.Exit(2)
		}
		fmt.Printf("== %s: %d paths, %d returns, %d obligations%s\n", rep.Name, rep.Paths, rep.Returns, len(rep.Obligations), map[bool]string{true: " ABORTED: " + rep.Aborted, false: ""}[rep.Aborted != ""])
		all = append(all, rep.Obligations...)
	}
	for _, l := range strings.Split(*lemmas, ",") {
		if l = strings.TrimSpace(l); l == "" {
			continue
		}
		rep, err := c.VerifyLemma(l)
		if err != nil {
			fmt.Fprintln(os.Stderr, err)
			os.Exit(2)
		}
		fmt.Printf("== %s: %d obligations\n", rep.Name, len(rep.Obligations))
		all = append(all, rep.Obligations...)
	}
	for _, e := range c.Errors {
		fmt.Println("ERROR:", e)
	}
	for _, n := range c.Notes {
		fmt.Println("NOTE:", n)
	}
	var plain, reach []*vc.Obligation
	for _, ob := range all {
		if ob.Reach {
			reach = append(reach, ob)
		} else {
			plain = append(plain, ob)
		}
	}
	res := vc.SolveAll(plain, vc.SolverOpts{TimeoutSec: *timeout, FirstTimeout: 3, Workers: 16, WantModel: *model})
	for ob, r := range vc.SolveAll(reach, vc.SolverOpts{TimeoutSec: 2, FirstTimeout: 2, Workers: 16, Single: true}) {
		if r.Status == "unsat" && ob.PreQuery != "" {
			p := &vc.Obligation{Name: ob.Name + "/before", Kind: "reach", Query: ob.PreQuery, Cover: true}
			if vc.SolveAll([]*vc.Obligation{p}, vc.SolverOpts{TimeoutSec: 2, FirstTimeout: 2, Workers: 1, Single: true})[p].Status == "unsat" {
				r.Status = "dead"
			}
		}
		res[ob] = r
	}
	type agg struct {
		name   string
		n      int
		bad    []*vc.Obligation
		status map[string]int
		secs   float64
		reach, reachable bool
	}
	byName := map[string]*agg{}
	var names []string
	for _, ob := range all {
		a := byName[ob.Name]
		if a == nil {
			a = &agg{name: ob.Name, status: map[string]int{}}
			byName[ob.Name] = a
			names = append(names, ob.Name)
		}
		r := res[ob]
		a.n++
		a.status[r.Status]++
		a.secs += r.Seconds
		ok := r.Status == "unsat"
		if ob.Cover {
			ok = r.Status != "unsat"
		}
		if ob.Reach {
			a.reach = true
			if r.Status != "unsat" {
				a.reachable = true
			}
		}
		if !ok {
			a.bad = append(a.bad, ob)
		}
		if *dump != "" && strings.Contains(ob.Name, *dump) {
			_ = os.MkdirAll("/tmp/govc-dump", 0o755)
			fn := fmt.Sprintf("/tmp/govc-dump/%s-%s.smt2", sanitizeFile(ob.Name), vc.QueryHash(ob.Query))
			_ = os.WriteFile(fn, []byte("; trace: "+strings.Join(ob.Trace, " > ")+"\n; status: "+r.Status+"\n"+ob.Query+"(check-sat)\n(get-model)\n"), 0o644)
		}
	}
	nbad := 0
	for _, n := range names {
		a := byName[n]
		if a.reach && a.reachable {
			a.bad = nil
		}
		if len(a.bad) == 0 {
			if *verbose {
				fmt.Printf("  ok   %-90s x%d %.2fs\n", n, a.n, a.secs)
			}
			continue
		}
		nbad++
		ob := a.bad[0]
		r := res[ob]
		fmt.Printf("  FAIL %-90s %v  (%s: %s) at %s\n       goal: %s\n", n, a.status, r.Solver, r.Status, ob.Pos, ob.Goal)
		if r.Detail != "" {
			fmt.Printf("       detail: %s\n", r.Detail)
		}
		if *verbose {
			fmt.Printf("       trace: %s\n", strings.Join(ob.Trace, " > "))
		}
		if *split {
			for _, bo := range a.bad {
				for i, cj := range splitGoal(bo.Query) {
					q := cj.query
					out := runZ3(q, 8)
					if out != "unsat" {
						fmt.Printf("       conjunct %d not discharged (%s): %.300s\n", i+1, out, cj.text)
					}
				}
			}
		}
		if *model && r.Model != "" {
			for _, mv := range ob.ModelVars {
				fmt.Printf("       %s = %s\n", mv.Name, vc.ModelValue(r.Model, mv.Term))
			}
		}
	}
	// slowest obligations
	type sl struct {
		name string
		secs float64
		solver string
	}
	var slow []sl
	for _, ob := range all {
		r := res[ob]
		if r.Seconds > 1.0 {
			slow = append(slow, sl{ob.Name, r.Seconds, r.Solver + ":" + r.Status})
		}
	}
	sort.Slice(slow, func(i, j int) bool { return slow[i].secs > slow[j].secs })
	for i, s := range slow {
		if i >= 15 {
			break
		}
		fmt.Printf("  slow %.1fs %s %s\n", s.secs, s.solver, s.name)
	}
	fmt.Printf("%d obligation names, %d queries, %d not discharged, %.1fs\n", len(names), len(all), nbad, time.Since(t0).Seconds())
}

func sanitizeFile(s string) string {
	var b strings.Builder
	for _, c := range s {
		if c >= 'a' && c <= 'z' || c >= 'A' && c <= 'Z' || c >= '0' && c <= '9' || c == '.' || c == '-' {
			b.WriteRune(c)
		} else {
			b.WriteByte('_')
		}
	}
	r := b.String()
	if len(r) > 100 {
		r = r[:100]
	}
	return r
}

type conjunct struct{ text, query string }

// splitGoal splits the final `(assert (not G))` of a query into one query per top-level conjunct of G.
func splitGoal(q string) []conjunct {
	i := strings.LastIndex(q, "(assert (not ")
	if i < 0 {
		return nil
	}
	head := q[:i]
	rest := q[i+len("(assert (not "):]
	g, tail := sexpr(rest)
	if g == "" {
		return nil
	}
	// tail starts with "))" closing not and assert
	for k := 0; k < 2; k++ {
		if j := strings.Index(tail, ")"); j >= 0 {
			tail = tail[j+1:]
		}
	}
	var parts []string
	var walk func(t string)
	walk = func(t string) {
		t = strings.TrimSpace(t)
		if strings.HasPrefix(t, "(and ") {
			body := t[5 : len(t)-1]
			for body != "" {
				body = strings.TrimSpace(body)
				if body == "" {
					break
				}
				e, r := sexpr(body)
				if e == "" {
					break
				}
				walk(e)
				body = r
			}
			return
		}
		parts = append(parts, t)
	}
	walk(g)
	if len(parts) < 2 {
		return nil
	}
	var out []conjunct
	for _, p := range parts {
		out = append(out, conjunct{p, head + "(assert (not " + p + "))\n" + tail})
	}
	return out
}

// sexpr returns the first s-expression (or atom) of s and the remainder.
func sexpr(s string) (string, string) {
	s = strings.TrimLeft(s, " \n\t")
	if s == "" {
		return "", ""
	}
	if s[0] != '(' {
		if s[0] == '"' {
			j := 1
			for j < len(s) {
				if s[j] == '"' {
					if j+1 < len(s) && s[j+1] == '"' {
						j += 2
						continue
					}
					break
				}
				j++
			}
			return s[:j+1], s[j+1:]
		}
		j := strings.IndexAny(s, " \n\t)")
		if j < 0 {
			return s, ""
		}
		return s[:j], s[j:]
	}
	depth := 0
	inStr := false
	for j := 0; j < len(s); j++ {
		ch := s[j]
		if inStr {
			if ch == '"' {
				inStr = false
			}
			continue
		}
		switch ch {
		case '"':
			inStr = true
		case '(':
			depth++
		case ')':
			depth--
			if depth == 0 {
				return s[:j+1], s[j+1:]
			}
		}
	}
	return "", ""
}

func runZ3(q string, secs int) string {
	cmd := exec.Command("z3-new", "-in", fmt.Sprintf("-T:%d", secs))
	cmd.Stdin = strings.NewReader(q + "(check-sat)\n")
	out, _ := cmd.Output()
	line := strings.TrimSpace(strings.SplitN(string(out), "\n", 2)[0])
	if line == "" {
		return "timeout"
	}
	return line
}
