package main

import (
	"fmt"
	"os"
	"strings"

	"golang.org/x/tools/go/packages"
	"golang.org/x/tools/go/ssa"
	"golang.org/x/tools/go/ssa/ssautil"
)

func main() {
	cfg := &packages.Config{Mode: packages.LoadSyntax, Dir: "/repo", BuildFlags: []string{"-tags=verif"}}
	pkgs, err := packages.Load(cfg, os.Args[1])
	if err != nil {
		panic(err)
	}
	prog, spkgs := ssautil.Packages(pkgs, ssa.InstantiateGenerics|ssa.GlobalDebug)
	prog.Build()
	for _, p := range spkgs {
		for _, m := range p.Members {
			if f, ok := m.(*ssa.Function); ok {
				dump(f, os.Args[2])
			}
			if t, ok := m.(*ssa.Type); ok {
				for _, T := range []interface{ NumMethods() int }{} {
					_ = T
				}
				ms := prog.MethodSets.MethodSet(t.Type())
				for i := 0; i < ms.Len(); i++ {
					if f := prog.MethodValue(ms.At(i)); f != nil {
						dump(f, os.Args[2])
					}
				}
				_ = t
			}
		}
	}
}
func dump(f *ssa.Function, pat string) {
	if strings.Contains(f.String(), pat) {
		f.WriteTo(os.Stdout)
	}
	for _, a := range f.AnonFuncs {
		dump(a, pat)
	}
	_ = fmt.Sprint
}
