package vc

import (
	"fmt"
	"go/token"
	"go/types"
	"strings"

	"golang.org/x/tools/go/ssa"
)

// plist is a persistent (shared-tail) list of strings, cheap to fork.
type plist struct {
	head string
	tail *plist
	n    int
}

func (p *plist) push(s string) *plist {
	n := 1
	if p != nil {
		n = p.n + 1
	}
	return &plist{head: s, tail: p, n: n}
}

func (p *plist) slice() []string {
	if p == nil {
		return nil
	}
	out := make([]string, p.n)
	i := p.n - 1
	for q := p; q != nil; q = q.tail {
		out[i] = q.head
		i--
	}
	return out
}

// Value is what an SSA register holds: a Term, a *Loc (interior pointer that is
// kept symbolic on the Go side), a Tuple, or a *RangeIter.
type Value interface{}

type Tuple []Value

// Loc is a memory location: a root plus a path into by-value structs.
type Loc struct {
	Kind   LocKind
	Base   Term       // field: object ref; cell: cell ref; elem: array ref
	Struct types.Type // field: struct type owning the field
	Field  int        // field: index of the field in Struct
	Idx    Term       // elem: absolute index
	Global *ssa.Global
	Path   []int      // descends into nested by-value struct fields
	Type   types.Type // type of the content of the location
	Root   types.Type // type of the content of the root (before Path)
}

type LocKind int

const (
	LocField LocKind = iota
	LocCell
	LocElem
	LocGlobal
)

type RangeIter struct {
	Instr   *ssa.Range
	Map     Term
	K, V    types.Type
	IsMap   bool
	Visited string // family name of the visited-set array in state.arrays
}

type Closure struct {
	Fn       *ssa.Function
	Bindings []Value
}

type deferred struct {
	call  *ssa.CallCommon
	instr ssa.Instruction
	fnVal Value
	args  []Value
}

type Frame struct {
	fn      *ssa.Function
	regs    map[ssa.Value]Value
	defers  []deferred
	results []Value // set at return (for RunDefers in named-result functions)
	callee  string  // inline label
	depth   int
	// loop heads already cut on this path (to detect re-entry)
	inLoops map[*ssa.BasicBlock]bool
	// source-level variables (from DebugRef): name -> current value
	vars map[string]debugVar
}

type debugVar struct {
	val    Value
	isAddr bool
	typ    types.Type
}

func (f *Frame) clone() *Frame {
	g := &Frame{fn: f.fn, callee: f.callee, depth: f.depth}
	g.regs = make(map[ssa.Value]Value, len(f.regs)+8)
	for k, v := range f.regs {
		g.regs[k] = v
	}
	g.defers = append([]deferred(nil), f.defers...)
	g.vars = make(map[string]debugVar, len(f.vars))
	for k, v := range f.vars {
		g.vars[k] = v
	}
	g.inLoops = make(map[*ssa.BasicBlock]bool, len(f.inLoops))
	for k, v := range f.inLoops {
		g.inLoops[k] = v
	}
	return g
}

type ownerInfo struct {
	Struct types.Type
	Obj    Term
	Field  string
}

// State is one symbolic path state.
type State struct {
	decls   *plist
	pc      *plist
	arrays  map[string]Term // current version per family
	snaps   map[string]map[string]Term // named heap snapshots (site ... snapshot <name>)
	entry   map[string]Term // entry version per family (for old())
	epoch   int
	closures map[string]*Closure
	owners  map[string]ownerInfo // term text of a lock pointer -> owning object
	boxed   map[string]types.Type // term text of an interface value -> concrete dynamic type (when known)
	locs    map[string]*Loc       // lowered Loc terms
	shared  map[string]bool       // cells shared with spawned goroutines
	trace   *plist
	dead    bool
	tokens  map[string]int // ghost: wait-group tokens held, keyed by wg address term
	permits map[string]int
	notes   *plist
	heldLocks    []string
	qbinders     []string // binders of the quantifiers being evaluated (spec evaluation)
	ctxDoneChans map[string]Term
	freshObjs    map[string]bool
	aliases      map[string]string  // named constant -> the term it abbreviates
	lastSent     map[string]Term    // channel term -> value of the last send on this path
	locals       []string           // references of non-escaping local allocations (invisible to callees)
	callArgs     map[string][]Value // "<callee>#<site ordinal>" -> arguments of that call on this path
	callResults  map[string][]Value // "<callee>#<site ordinal>" -> results of that call on this path
}

func NewState() *State {
	return &State{
		arrays:   map[string]Term{},
		entry:    map[string]Term{},
		closures: map[string]*Closure{},
		owners:   map[string]ownerInfo{},
		boxed:    map[string]types.Type{},
		locs:     map[string]*Loc{},
		shared:   map[string]bool{},
		tokens:   map[string]int{},
		permits:  map[string]int{},
		ctxDoneChans: map[string]Term{},
		freshObjs:    map[string]bool{},
		callResults:  map[string][]Value{},
		callArgs:     map[string][]Value{},
		lastSent:     map[string]Term{},
		aliases:      map[string]string{},
	}
}

func (s *State) Clone() *State {
	c := &State{decls: s.decls, pc: s.pc, epoch: s.epoch, trace: s.trace, dead: s.dead, notes: s.notes}
	c.arrays = make(map[string]Term, len(s.arrays))
	for k, v := range s.arrays {
		c.arrays[k] = v
	}
	c.entry = make(map[string]Term, len(s.entry))
	for k, v := range s.entry {
		c.entry[k] = v
	}
	c.closures = make(map[string]*Closure, len(s.closures))
	for k, v := range s.closures {
		c.closures[k] = v
	}
	c.owners = make(map[string]ownerInfo, len(s.owners))
	for k, v := range s.owners {
		c.owners[k] = v
	}
	c.boxed = make(map[string]types.Type, len(s.boxed))
	for k, v := range s.boxed {
		c.boxed[k] = v
	}
	c.locs = make(map[string]*Loc, len(s.locs))
	for k, v := range s.locs {
		c.locs[k] = v
	}
	c.shared = make(map[string]bool, len(s.shared))
	for k, v := range s.shared {
		c.shared[k] = v
	}
	c.tokens = make(map[string]int, len(s.tokens))
	for k, v := range s.tokens {
		c.tokens[k] = v
	}
	c.permits = make(map[string]int, len(s.permits))
	for k, v := range s.permits {
		c.permits[k] = v
	}
	c.heldLocks = append([]string(nil), s.heldLocks...)
	c.snaps = make(map[string]map[string]Term, len(s.snaps))
	for k, v := range s.snaps {
		c.snaps[k] = v
	}
	c.ctxDoneChans = s.ctxDoneChans
	c.aliases = make(map[string]string, len(s.aliases))
	for k, v := range s.aliases {
		c.aliases[k] = v
	}
	c.lastSent = make(map[string]Term, len(s.lastSent))
	for k, v := range s.lastSent {
		c.lastSent[k] = v
	}
	c.locals = append([]string(nil), s.locals...)
	c.callArgs = make(map[string][]Value, len(s.callArgs))
	for k, v := range s.callArgs {
		c.callArgs[k] = v
	}
	c.callResults = make(map[string][]Value, len(s.callResults))
	for k, v := range s.callResults {
		c.callResults[k] = v
	}
	c.freshObjs = make(map[string]bool, len(s.freshObjs))
	for k, v := range s.freshObjs {
		c.freshObjs[k] = v
	}
	return c
}

func (s *State) Assume(t Term) {
	if t.S == "true" {
		return
	}
	if t.Sort != SBool {
		panic("assume of non-bool term: " + t.S)
	}
	// skip a fact that was just asserted (spec evaluation repeats side facts)
	n := 0
	for q := s.pc; q != nil && n < 40; q = q.tail {
		if q.head == t.S {
			return
		}
		n++
	}
	if len(s.qbinders) > 0 {
		// a side fact produced while evaluating the body of a quantifier: it may
		// mention the bound variables, so it is asserted for all of them
		var used []string
		for _, b := range s.qbinders {
			name := b[1:strings.IndexByte(b, ' ')]
			if strings.Contains(t.S, name) {
				used = append(used, b)
			}
		}
		if len(used) > 0 {
			s.pc = s.pc.push("(forall (" + strings.Join(used, " ") + ") " + t.S + ")")
			return
		}
	}
	s.pc = s.pc.push(t.S)
}

func (s *State) Declare(name string, sort Sort) Term {
	s.decls = s.decls.push(fmt.Sprintf("(declare-const %s %s)", name, sort))
	return Term{name, sort}
}

func (s *State) Note(format string, a ...any) {
	s.notes = s.notes.push(fmt.Sprintf(format, a...))
}

// ---------------------------------------------------------------------------

type Obligation struct {
	Func    string
	Kind    string
	Label   string
	Ordinal int
	Name    string
	Pos     token.Position
	Goal    string // negated goal text (human readable)
	Query   string
	Trace   []string
	ModelVars []ModelVar // variables worth reading back from a model
	Cover   bool // cover obligation: query must be SAT
	Assumed bool
	PreQuery string // reachability guards: the state before the call (a call in dead code is not a vacuity)
	Reach   bool // reachability guard: vacuous only when every query of this name is UNSAT
}

type ModelVar struct {
	Name string // human name (e.g. parameter name)
	Term string
	Sort Sort
}

func obName(fn, kind, label string, ord int) string {
	if label == "" {
		return fmt.Sprintf("%s/%s#%d", fn, kind, ord)
	}
	return fmt.Sprintf("%s/%s[%s#%d]", fn, kind, label, ord)
}

func shortTrace(p *plist) []string {
	tr := p.slice()
	if len(tr) > 60 {
		tr = append(tr[:20], append([]string{"..."}, tr[len(tr)-39:]...)...)
	}
	return tr
}

func joinLines(ls []string) string { return strings.Join(ls, "\n") }
