package vc

import (
	"fmt"
	"go/types"
	"strings"
	"unicode"
)

// ---------------------------------------------------------------------------
// Spec expression AST and parser (Gobra-flavoured, Go-like syntax).
// ---------------------------------------------------------------------------

type SNode struct {
	Op   string   // "lit-int","lit-float","lit-str","lit-bool","nil","id","sel","idx","call","un","bin","typeassert","forall","exists","typelit"
	Text string   // identifier / literal / operator / field name
	Args []*SNode // operands
	Type string   // type text (typeassert, quantifier variable, typelit)
	Vars [][2]string // quantifier variables: name, type text
	Pos  int
}

func (n *SNode) String() string {
	if n == nil {
		return "<nil>"
	}
	switch n.Op {
	case "id", "lit-int", "lit-float", "lit-bool", "nil":
		return n.Text
	case "lit-str":
		return fmt.Sprintf("%q", n.Text)
	case "sel":
		return n.Args[0].String() + "." + n.Text
	case "idx":
		return n.Args[0].String() + "[" + n.Args[1].String() + "]"
	case "call":
		parts := make([]string, len(n.Args))
		for i, a := range n.Args {
			parts[i] = a.String()
		}
		return n.Text + "(" + strings.Join(parts, ", ") + ")"
	case "un":
		return n.Text + n.Args[0].String()
	case "bin":
		return "(" + n.Args[0].String() + " " + n.Text + " " + n.Args[1].String() + ")"
	case "typeassert":
		return n.Args[0].String() + ".(" + n.Type + ")"
	case "forall", "exists":
		vs := make([]string, len(n.Vars))
		for i, v := range n.Vars {
			vs[i] = v[0] + " " + v[1]
		}
		return "(" + n.Op + " " + strings.Join(vs, ", ") + " :: " + n.Args[0].String() + ")"
	case "typelit":
		return n.Type
	}
	return "?" + n.Op
}

type stok struct {
	kind string // "id","int","float","str","op","eof"
	text string
	pos  int
}

type sparser struct {
	src  string
	toks []stok
	i    int
}

func lexSpec(src string) ([]stok, error) {
	var toks []stok
	i := 0
	for i < len(src) {
		c := src[i]
		switch {
		case c == ' ' || c == '\t' || c == '\n' || c == '\r':
			i++
		case c == '"':
			j := i + 1
			var b strings.Builder
			for j < len(src) && src[j] != '"' {
				if src[j] == '\\' && j+1 < len(src) {
					j++
					switch src[j] {
					case 'n':
						b.WriteByte('\n')
					case 't':
						b.WriteByte('\t')
					case '\\':
						b.WriteByte('\\')
					case '"':
						b.WriteByte('"')
					default:
						b.WriteByte('\\')
						b.WriteByte(src[j])
					}
					j++
					continue
				}
				b.WriteByte(src[j])
				j++
			}
			if j >= len(src) {
				return nil, fmt.Errorf("unterminated string at %d", i)
			}
			toks = append(toks, stok{"str", b.String(), i})
			i = j + 1
		case c == '`':
			j := strings.IndexByte(src[i+1:], '`')
			if j < 0 {
				return nil, fmt.Errorf("unterminated raw string at %d", i)
			}
			toks = append(toks, stok{"str", src[i+1 : i+1+j], i})
			i = i + j + 2
		case c >= '0' && c <= '9':
			j := i
			isFloat := false
			if c == '0' && j+1 < len(src) && (src[j+1] == 'x' || src[j+1] == 'X') {
				j += 2
				for j < len(src) && (isHex(src[j]) || src[j] == '.' || src[j] == '_') {
					if src[j] == '.' {
						isFloat = true
					}
					j++
				}
				if j < len(src) && (src[j] == 'p' || src[j] == 'P') {
					isFloat = true
					j++
					if j < len(src) && (src[j] == '+' || src[j] == '-') {
						j++
					}
					for j < len(src) && src[j] >= '0' && src[j] <= '9' {
						j++
					}
				}
			} else {
				for j < len(src) && (src[j] >= '0' && src[j] <= '9' || src[j] == '_') {
					j++
				}
				if j < len(src) && src[j] == '.' && j+1 < len(src) && src[j+1] >= '0' && src[j+1] <= '9' {
					isFloat = true
					j++
					for j < len(src) && src[j] >= '0' && src[j] <= '9' {
						j++
					}
				}
				if j < len(src) && (src[j] == 'e' || src[j] == 'E') {
					k := j + 1
					if k < len(src) && (src[k] == '+' || src[k] == '-') {
						k++
					}
					if k < len(src) && src[k] >= '0' && src[k] <= '9' {
						isFloat = true
						j = k
						for j < len(src) && src[j] >= '0' && src[j] <= '9' {
							j++
						}
					}
				}
			}
			kind := "int"
			if isFloat {
				kind = "float"
			}
			toks = append(toks, stok{kind, strings.ReplaceAll(src[i:j], "_", ""), i})
			i = j
		case c == '_' || unicode.IsLetter(rune(c)):
			j := i
			for j < len(src) && (src[j] == '_' || src[j] == '$' || unicode.IsLetter(rune(src[j])) || unicode.IsDigit(rune(src[j]))) {
				j++
			}
			toks = append(toks, stok{"id", src[i:j], i})
			i = j
		default:
			ops := []string{"<==>", "==>", "::", "==", "!=", "<=", ">=", "&&", "||", "<-", "..."}
			matched := false
			for _, op := range ops {
				if strings.HasPrefix(src[i:], op) {
					toks = append(toks, stok{"op", op, i})
					i += len(op)
					matched = true
					break
				}
			}
			if matched {
				continue
			}
			if strings.ContainsRune("+-*/%<>!()[]{}.,:&|^", rune(c)) {
				toks = append(toks, stok{"op", string(c), i})
				i++
				continue
			}
			return nil, fmt.Errorf("unexpected character %q at %d in %q", c, i, src)
		}
	}
	toks = append(toks, stok{"eof", "", len(src)})
	return toks, nil
}

func isHex(c byte) bool {
	return c >= '0' && c <= '9' || c >= 'a' && c <= 'f' || c >= 'A' && c <= 'F'
}

func ParseSpecExpr(src string) (*SNode, error) {
	toks, err := lexSpec(src)
	if err != nil {
		return nil, err
	}
	p := &sparser{src: src, toks: toks}
	n, err := p.parseExpr()
	if err != nil {
		return nil, err
	}
	if p.peek().kind != "eof" {
		return nil, fmt.Errorf("trailing input at %d in %q", p.peek().pos, src)
	}
	return n, nil
}

func (p *sparser) peek() stok { return p.toks[p.i] }
func (p *sparser) next() stok  { t := p.toks[p.i]; p.i++; return t }
func (p *sparser) isOp(op string) bool {
	t := p.peek()
	return t.kind == "op" && t.text == op
}
func (p *sparser) expectOp(op string) error {
	if !p.isOp(op) {
		return fmt.Errorf("expected %q at %d in %q (got %q)", op, p.peek().pos, p.src, p.peek().text)
	}
	p.i++
	return nil
}

// precedence (low to high): <==> ; ==> (right assoc) ; || ; && ; comparisons ; + - | ^ ; * / % &
func (p *sparser) parseExpr() (*SNode, error) { return p.parseIff() }

func (p *sparser) parseIff() (*SNode, error) {
	l, err := p.parseImpl()
	if err != nil {
		return nil, err
	}
	for p.isOp("<==>") {
		p.i++
		r, err := p.parseImpl()
		if err != nil {
			return nil, err
		}
		l = &SNode{Op: "bin", Text: "<==>", Args: []*SNode{l, r}}
	}
	return l, nil
}

func (p *sparser) parseImpl() (*SNode, error) {
	l, err := p.parseOr()
	if err != nil {
		return nil, err
	}
	if p.isOp("==>") {
		p.i++
		r, err := p.parseImpl()
		if err != nil {
			return nil, err
		}
		return &SNode{Op: "bin", Text: "==>", Args: []*SNode{l, r}}, nil
	}
	return l, nil
}

func (p *sparser) parseOr() (*SNode, error) {
	l, err := p.parseAnd()
	if err != nil {
		return nil, err
	}
	for p.isOp("||") {
		p.i++
		r, err := p.parseAnd()
		if err != nil {
			return nil, err
		}
		l = &SNode{Op: "bin", Text: "||", Args: []*SNode{l, r}}
	}
	return l, nil
}

func (p *sparser) parseAnd() (*SNode, error) {
	l, err := p.parseCmp()
	if err != nil {
		return nil, err
	}
	for p.isOp("&&") {
		p.i++
		r, err := p.parseCmp()
		if err != nil {
			return nil, err
		}
		l = &SNode{Op: "bin", Text: "&&", Args: []*SNode{l, r}}
	}
	return l, nil
}

func (p *sparser) parseCmp() (*SNode, error) {
	l, err := p.parseAdd()
	if err != nil {
		return nil, err
	}
	for {
		t := p.peek()
		if t.kind == "op" && (t.text == "==" || t.text == "!=" || t.text == "<" || t.text == "<=" || t.text == ">" || t.text == ">=") {
			p.i++
			r, err := p.parseAdd()
			if err != nil {
				return nil, err
			}
			l = &SNode{Op: "bin", Text: t.text, Args: []*SNode{l, r}}
			continue
		}
		return l, nil
	}
}

func (p *sparser) parseAdd() (*SNode, error) {
	l, err := p.parseMul()
	if err != nil {
		return nil, err
	}
	for {
		t := p.peek()
		if t.kind == "op" && (t.text == "+" || t.text == "-") {
			p.i++
			r, err := p.parseMul()
			if err != nil {
				return nil, err
			}
			l = &SNode{Op: "bin", Text: t.text, Args: []*SNode{l, r}}
			continue
		}
		return l, nil
	}
}

func (p *sparser) parseMul() (*SNode, error) {
	l, err := p.parseUnary()
	if err != nil {
		return nil, err
	}
	for {
		t := p.peek()
		if t.kind == "op" && (t.text == "*" || t.text == "/" || t.text == "%") {
			p.i++
			r, err := p.parseUnary()
			if err != nil {
				return nil, err
			}
			l = &SNode{Op: "bin", Text: t.text, Args: []*SNode{l, r}}
			continue
		}
		return l, nil
	}
}

func (p *sparser) parseUnary() (*SNode, error) {
	t := p.peek()
	if t.kind == "op" && (t.text == "!" || t.text == "-" || t.text == "*" || t.text == "&") {
		p.i++
		x, err := p.parseUnary()
		if err != nil {
			return nil, err
		}
		return &SNode{Op: "un", Text: t.text, Args: []*SNode{x}}, nil
	}
	return p.parsePostfix()
}

func (p *sparser) parsePostfix() (*SNode, error) {
	x, err := p.parsePrimary()
	if err != nil {
		return nil, err
	}
	for {
		switch {
		case p.isOp("."):
			p.i++
			if p.isOp("(") {
				p.i++
				ty, err := p.parseTypeText()
				if err != nil {
					return nil, err
				}
				if err := p.expectOp(")"); err != nil {
					return nil, err
				}
				x = &SNode{Op: "typeassert", Args: []*SNode{x}, Type: ty}
				continue
			}
			t := p.next()
			if t.kind != "id" {
				return nil, fmt.Errorf("expected field name at %d in %q", t.pos, p.src)
			}
			x = &SNode{Op: "sel", Text: t.text, Args: []*SNode{x}}
		case p.isOp("["):
			p.i++
			idx, err := p.parseExpr()
			if err != nil {
				return nil, err
			}
			if err := p.expectOp("]"); err != nil {
				return nil, err
			}
			x = &SNode{Op: "idx", Args: []*SNode{x, idx}}
		case p.isOp("("):
			// call: only on identifiers / selectors
			name := ""
			switch x.Op {
			case "id":
				name = x.Text
			case "sel":
				name = x.String()
			default:
				return x, nil
			}
			p.i++
			var args []*SNode
			for !p.isOp(")") {
				// type arguments are allowed in typeis(x, T), zero(T): try expression first
				save := p.i
				a, err := p.parseExpr()
				if err != nil || !(p.isOp(",") || p.isOp(")")) {
					p.i = save
					ty, terr := p.parseTypeText()
					if terr != nil {
						if err != nil {
							return nil, err
						}
						return nil, terr
					}
					a = &SNode{Op: "typelit", Type: ty}
				}
				args = append(args, a)
				if p.isOp(",") {
					p.i++
				}
			}
			p.i++
			x = &SNode{Op: "call", Text: name, Args: args}
		default:
			return x, nil
		}
	}
}

func (p *sparser) parsePrimary() (*SNode, error) {
	t := p.next()
	switch t.kind {
	case "int":
		return &SNode{Op: "lit-int", Text: t.text}, nil
	case "float":
		return &SNode{Op: "lit-float", Text: t.text}, nil
	case "str":
		return &SNode{Op: "lit-str", Text: t.text}, nil
	case "id":
		switch t.text {
		case "true", "false":
			return &SNode{Op: "lit-bool", Text: t.text}, nil
		case "nil":
			return &SNode{Op: "nil", Text: "nil"}, nil
		case "forall", "exists":
			var vars [][2]string
			for {
				nm := p.next()
				if nm.kind != "id" {
					return nil, fmt.Errorf("expected variable name at %d in %q", nm.pos, p.src)
				}
				ty, err := p.parseTypeText()
				if err != nil {
					return nil, err
				}
				vars = append(vars, [2]string{nm.text, ty})
				if p.isOp(",") {
					p.i++
					continue
				}
				break
			}
			if err := p.expectOp("::"); err != nil {
				return nil, err
			}
			body, err := p.parseExpr()
			if err != nil {
				return nil, err
			}
			return &SNode{Op: t.text, Vars: vars, Args: []*SNode{body}}, nil
		}
		return &SNode{Op: "id", Text: t.text}, nil
	case "op":
		if t.text == "(" {
			x, err := p.parseExpr()
			if err != nil {
				return nil, err
			}
			if err := p.expectOp(")"); err != nil {
				return nil, err
			}
			return x, nil
		}
	}
	return nil, fmt.Errorf("unexpected token %q at %d in %q", t.text, t.pos, p.src)
}

// parseTypeText consumes a Go type expression and returns its text.
func (p *sparser) parseTypeText() (string, error) {
	t := p.peek()
	switch {
	case t.kind == "op" && t.text == "*":
		p.i++
		inner, err := p.parseTypeText()
		return "*" + inner, err
	case t.kind == "op" && t.text == "[":
		p.i++
		if p.isOp("]") {
			p.i++
			inner, err := p.parseTypeText()
			return "[]" + inner, err
		}
		n := p.next()
		if n.kind != "int" {
			return "", fmt.Errorf("bad array type at %d in %q", n.pos, p.src)
		}
		if err := p.expectOp("]"); err != nil {
			return "", err
		}
		inner, err := p.parseTypeText()
		return "[" + n.text + "]" + inner, err
	case t.kind == "id" && t.text == "map":
		p.i++
		if err := p.expectOp("["); err != nil {
			return "", err
		}
		k, err := p.parseTypeText()
		if err != nil {
			return "", err
		}
		if err := p.expectOp("]"); err != nil {
			return "", err
		}
		v, err := p.parseTypeText()
		return "map[" + k + "]" + v, err
	case t.kind == "id" && t.text == "chan":
		p.i++
		inner, err := p.parseTypeText()
		return "chan " + inner, err
	case t.kind == "id" && t.text == "struct":
		p.i++
		if err := p.expectOp("{"); err != nil {
			return "", err
		}
		if err := p.expectOp("}"); err != nil {
			return "", err
		}
		return "struct{}", nil
	case t.kind == "id":
		p.i++
		name := t.text
		if p.isOp(".") && p.toks[p.i+1].kind == "id" {
			p.i++
			name += "." + p.next().text
		}
		if p.isOp("[") {
			// generic instantiation T[A]
			save := p.i
			p.i++
			a, err := p.parseTypeText()
			if err == nil && p.isOp("]") {
				p.i++
				return name + "[" + a + "]", nil
			}
			p.i = save
		}
		return name, nil
	}
	return "", fmt.Errorf("expected type at %d in %q", t.pos, p.src)
}

// ---------------------------------------------------------------------------
// Contract files.
// ---------------------------------------------------------------------------

type Clause struct {
	Label string
	Text  string
	Expr  *SNode
	Line  string // file:line of the clause
	Pkg   *types.Package // owning package of an axiom (nil: extern spec)
}

// SharedGuard: `shared a, b guarded_by l` -- the map / slice a (a parameter or captured
// variable) is shared with other goroutines: every read or write of its contents in this
// function needs lock l.
type SharedGuard struct {
	Name string
	Expr *SNode
	Lock *SNode
	Line string
}

type Contract struct {
	Key      string // function key or interface-method key
	File     string
	Requires []Clause
	Ensures  []Clause
	Modifies []string // raw modifies items
	HasModifies bool
	LoopInv  map[int][]Clause
	LoopMod  map[int][]string
	Opts     map[string]string // misc options: "inline", "goroutine", "trusted", ...
	Params   []string          // parameter names for extern / interface contracts
	Lets     []Clause          // let name = expr (evaluated at entry)
	Extern   bool
	Decreases *Clause          // termination measure (integer expression over the parameters)
	DecreasesList []Clause     // lexicographic components
	sitesSeen   map[string]bool
	Captures    []Clause            // facts about captured variables: asserted where the closure is created, assumed at its entry
	Pkg         *types.Package      // package of the contract file
	Shared      []SharedGuard       // local data shared between goroutines, accessed only with a lock held
	SiteSets    map[string][]Clause // "<site class>#<ordinal>" -> ghost updates `set g(args)` executed right before that instruction
	SiteSnaps   map[string][]string // "<site class>#<ordinal>" -> names of heap snapshots taken right before that instruction
	SiteAsserts map[string][]Clause // "<site class>#<ordinal>" -> assertions checked right before that instruction
}

type PureDef struct {
	Name   string
	Params [][2]string
	Result string
	Body   *SNode // nil: uninterpreted
	File   string
	// Recursive (rpred): an uninterpreted predicate over immutable structures whose
	// one-level unfolding in the current state is asserted wherever it is mentioned
	Recursive bool
	Pkg       *types.Package // owning package (nil: extern spec)
}

type GhostDef struct {
	Name   string
	Params [][2]string
	Result string
}

type FieldAnno struct {
	Struct string // struct type name (package-local)
	Mode   string // guarded_by(x) | immutable | atomic | owned_by(x) | sync | chan
	Fields []string
	Arg    string
	Deep   map[string]bool
}

type LockInv struct {
	Struct string
	Lock   string // field name of the lock
	Clauses []Clause
}

type Lemma struct {
	Name     string
	Params   [][2]string
	Requires []Clause
	Ensures  []Clause
	Calls    []LemmaCall
	File     string
}

// LemmaCall instantiates the contract of a function on spec arguments:
// call r = F(args) binds r (and r1, r2, ...) to results satisfying F's postconditions.
type LemmaCall struct {
	Var  string
	Func string
	Args []*SNode
	Line string
}

type SpecFile struct {
	Path      string
	Pkg       string
	Contracts []*Contract
	Pures     []*PureDef
	Ghosts    []*GhostDef
	Fields    []*FieldAnno
	LockInvs  []*LockInv
	Lemmas    []*Lemma
	Chans     []map[string]string
	Dispatch  [][2]string
	Axioms    []Clause
	ChanInvs  []*ChanInv
}

// ParseSpecText parses the //@ lines of a contract file (or all lines of an
// extern .spec file when raw is true).
func ParseSpecText(path string, text string, raw bool) (*SpecFile, error) {
	sf := &SpecFile{Path: path}
	type lineT struct {
		s  string
		no int
	}
	var lines []lineT
	for i, l := range strings.Split(text, "\n") {
		t := strings.TrimSpace(l)
		if raw {
			if t == "" || strings.HasPrefix(t, "#") {
				continue
			}
			if strings.HasPrefix(t, "//@") {
				t = strings.TrimSpace(t[3:])
			}
			lines = append(lines, lineT{t, i + 1})
			continue
		}
		if strings.HasPrefix(t, "//@") {
			t = strings.TrimSpace(t[3:])
			if t == "" {
				continue
			}
			lines = append(lines, lineT{t, i + 1})
		} else if strings.HasPrefix(t, "// @") { // gofmt rewrite tolerance
			t = strings.TrimSpace(t[4:])
			if t != "" {
				lines = append(lines, lineT{t, i + 1})
			}
		}
	}
	// join continuation lines (a line starting with '\' continues the previous one)
	var joined []lineT
	cont := false
	for _, l := range lines {
		if (cont || strings.HasPrefix(l.s, "\\")) && len(joined) > 0 {
			joined[len(joined)-1].s += " " + strings.TrimSpace(strings.TrimPrefix(l.s, "\\"))
		} else {
			joined = append(joined, l)
		}
		last := &joined[len(joined)-1]
		cont = strings.HasSuffix(last.s, "\\")
		if cont {
			last.s = strings.TrimSpace(strings.TrimSuffix(last.s, "\\"))
		}
	}
	var cur *Contract
	var curInv *LockInv
	var curLemma *Lemma
	mkClause := func(rest string, no int) (Clause, error) {
		label := ""
		rest = strings.TrimSpace(rest)
		if strings.HasPrefix(rest, "[") {
			j := strings.IndexByte(rest, ']')
			if j > 0 {
				label = rest[1:j]
				rest = strings.TrimSpace(rest[j+1:])
			}
		}
		e, err := ParseSpecExpr(rest)
		if err != nil {
			return Clause{}, fmt.Errorf("%s:%d: %v", path, no, err)
		}
		return Clause{Label: label, Text: rest, Expr: e, Line: fmt.Sprintf("%s:%d", path, no)}, nil
	}
	for _, l := range joined {
		word, rest := splitWord(l.s)
		switch word {
		case "package":
			sf.Pkg = rest
		case "func", "method", "extern":
			cur = &Contract{Key: strings.TrimSpace(rest), File: path, LoopInv: map[int][]Clause{}, LoopMod: map[int][]string{}, Opts: map[string]string{}}
			if word == "extern" {
				cur.Extern = true
			}
			// optional parameter list: key(p1, p2, ...)
			if i := strings.IndexByte(cur.Key, '('); i > 0 && strings.HasSuffix(cur.Key, ")") && !strings.HasPrefix(cur.Key, "(") {
				ps := cur.Key[i+1 : len(cur.Key)-1]
				cur.Key = strings.TrimSpace(cur.Key[:i])
				for _, pn := range strings.Split(ps, ",") {
					pn = strings.TrimSpace(pn)
					if pn != "" {
						cur.Params = append(cur.Params, pn)
					}
				}
			} else if strings.HasPrefix(cur.Key, "(") {
				// (recv).Method(p1, p2)
				if i := strings.LastIndexByte(cur.Key, '('); i > 0 && strings.HasSuffix(cur.Key, ")") && i > strings.IndexByte(cur.Key, ')') {
					ps := cur.Key[i+1 : len(cur.Key)-1]
					cur.Key = strings.TrimSpace(cur.Key[:i])
					for _, pn := range strings.Split(ps, ",") {
						pn = strings.TrimSpace(pn)
						if pn != "" {
							cur.Params = append(cur.Params, pn)
						}
					}
				}
			}
			sf.Contracts = append(sf.Contracts, cur)
			curInv, curLemma = nil, nil
		case "requires", "ensures", "preserves":
			c, err := mkClause(rest, l.no)
			if err != nil {
				return nil, err
			}
			switch {
			case curLemma != nil:
				if word == "requires" {
					curLemma.Requires = append(curLemma.Requires, c)
				} else {
					curLemma.Ensures = append(curLemma.Ensures, c)
				}
			case cur != nil:
				if word == "requires" || word == "preserves" {
					cur.Requires = append(cur.Requires, c)
				}
				if word == "ensures" || word == "preserves" {
					cur.Ensures = append(cur.Ensures, c)
				}
			default:
				return nil, fmt.Errorf("%s:%d: clause outside of a contract", path, l.no)
			}
		case "let":
			if cur == nil {
				return nil, fmt.Errorf("%s:%d: let outside of a contract", path, l.no)
			}
			i := strings.IndexByte(rest, '=')
			if i < 0 {
				return nil, fmt.Errorf("%s:%d: bad let", path, l.no)
			}
			c, err := mkClause(rest[i+1:], l.no)
			if err != nil {
				return nil, err
			}
			c.Label = strings.TrimSpace(rest[:i])
			cur.Lets = append(cur.Lets, c)
		case "modifies":
			if cur == nil {
				return nil, fmt.Errorf("%s:%d: modifies outside of a contract", path, l.no)
			}
			cur.HasModifies = true
			for _, it := range splitTop(rest, ',') {
				it = strings.TrimSpace(it)
				if it != "" && it != "nothing" {
					cur.Modifies = append(cur.Modifies, it)
				}
			}
		case "loop":
			if cur == nil {
				return nil, fmt.Errorf("%s:%d: loop outside of a contract", path, l.no)
			}
			var n int
			w2, rest2 := splitWord(rest)
			if _, err := fmt.Sscanf(w2, "%d", &n); err != nil {
				return nil, fmt.Errorf("%s:%d: bad loop ordinal", path, l.no)
			}
			w3, rest3 := splitWord(rest2)
			switch w3 {
			case "invariant":
				c, err := mkClause(rest3, l.no)
				if err != nil {
					return nil, err
				}
				cur.LoopInv[n] = append(cur.LoopInv[n], c)
			case "modifies":
				for _, it := range splitTop(rest3, ',') {
					cur.LoopMod[n] = append(cur.LoopMod[n], strings.TrimSpace(it))
				}
			default:
				return nil, fmt.Errorf("%s:%d: bad loop clause %q", path, l.no, w3)
			}
		case "captures":
			if cur == nil {
				return nil, fmt.Errorf("%s:%d: captures outside of a contract", path, l.no)
			}
			cl, err := mkClause(rest, l.no)
			if err != nil {
				return nil, err
			}
			cur.Captures = append(cur.Captures, cl)
		case "shared":
			if cur == nil {
				return nil, fmt.Errorf("%s:%d: shared outside of a contract", path, l.no)
			}
			i := strings.Index(rest, " guarded_by ")
			if i < 0 {
				return nil, fmt.Errorf("%s:%d: bad shared line (expected: shared a, b guarded_by <lock>)", path, l.no)
			}
			lk, err := mkClause(rest[i+12:], l.no)
			if err != nil {
				return nil, err
			}
			for _, it := range splitTop(rest[:i], ',') {
				it = strings.TrimSpace(it)
				if it == "" {
					continue
				}
				e, err := mkClause(it, l.no)
				if err != nil {
					return nil, err
				}
				cur.Shared = append(cur.Shared, SharedGuard{Name: it, Expr: e.Expr, Lock: lk.Expr, Line: e.Line})
			}
		case "site":
			// site <class words>#<n> assert <expr>
			if cur == nil {
				return nil, fmt.Errorf("%s:%d: site outside of a contract", path, l.no)
			}
			if j := strings.Index(rest, " set "); j >= 0 && !strings.Contains(rest, " assert ") {
				// site <class>#<n> set g(args): the boolean ghost g becomes true for these arguments
				k := strings.TrimSpace(rest[:j])
				cl, err := mkClause(rest[j+5:], l.no)
				if err != nil {
					return nil, err
				}
				if cur.SiteSets == nil {
					cur.SiteSets = map[string][]Clause{}
				}
				cur.SiteSets[k] = append(cur.SiteSets[k], cl)
				if cur.SiteAsserts == nil {
					cur.SiteAsserts = map[string][]Clause{}
				}
				if _, ok := cur.SiteAsserts[k]; !ok {
					cur.SiteAsserts[k] = nil
				}
				continue
			}
			if j := strings.Index(rest, " snapshot "); j >= 0 && !strings.Contains(rest, " assert ") {
				// site <class>#<n> snapshot <name>: at(<name>, e) evaluates e in the heap of that moment
				if cur.SiteSnaps == nil {
					cur.SiteSnaps = map[string][]string{}
				}
				k := strings.TrimSpace(rest[:j])
				cur.SiteSnaps[k] = append(cur.SiteSnaps[k], strings.TrimSpace(rest[j+10:]))
				if cur.SiteAsserts == nil {
					cur.SiteAsserts = map[string][]Clause{}
				}
				if _, ok := cur.SiteAsserts[k]; !ok {
					cur.SiteAsserts[k] = nil
				}
				continue
			}
			i := strings.Index(rest, " assert ")
			if i < 0 {
				return nil, fmt.Errorf("%s:%d: bad site line (expected: site <class>#<n> assert <expr>)", path, l.no)
			}
			key := strings.TrimSpace(rest[:i])
			c, err := mkClause(rest[i+8:], l.no)
			if err != nil {
				return nil, err
			}
			if cur.SiteAsserts == nil {
				cur.SiteAsserts = map[string][]Clause{}
			}
			cur.SiteAsserts[key] = append(cur.SiteAsserts[key], c)
		case "opt":
			if cur == nil {
				return nil, fmt.Errorf("%s:%d: opt outside of a contract", path, l.no)
			}
			k, v := splitWord(rest)
			if v == "" {
				v = "true"
			}
			cur.Opts[k] = v
		case "decreases":
			if cur == nil {
				return nil, fmt.Errorf("%s:%d: decreases outside of a contract", path, l.no)
			}
			// lexicographic measure: decreases e1, e2, ...
			cur.DecreasesList = nil
			for _, part := range splitTop(rest, ',') {
				c, err := mkClause(part, l.no)
				if err != nil {
					return nil, err
				}
				cur.DecreasesList = append(cur.DecreasesList, c)
			}
			c := cur.DecreasesList[0]
			c.Text = rest
			cur.Decreases = &c
		case "dispatch":
			// dispatch Iface ConcreteType : calls through Iface are resolved to ConcreteType, with
			// the obligation that the receiver really has that dynamic type
			fs := strings.Fields(rest)
			if len(fs) != 2 {
				return nil, fmt.Errorf("%s:%d: bad dispatch line", path, l.no)
			}
			sf.Dispatch = append(sf.Dispatch, [2]string{fs[0], fs[1]})
		case "pure", "pred", "rpred":
			// pure name(p T, q U) R [= expr]
			pd, err := parsePureDecl(rest, word != "pure")
			if err == nil && word == "rpred" {
				pd.Recursive = true
			}
			if err != nil {
				return nil, fmt.Errorf("%s:%d: %v", path, l.no, err)
			}
			pd.File = path
			sf.Pures = append(sf.Pures, pd)
			cur, curInv, curLemma = nil, nil, nil
		case "ghost":
			pd, err := parsePureDecl(rest, false)
			if err != nil {
				return nil, fmt.Errorf("%s:%d: %v", path, l.no, err)
			}
			sf.Ghosts = append(sf.Ghosts, &GhostDef{Name: pd.Name, Params: pd.Params, Result: pd.Result})
			cur, curInv, curLemma = nil, nil, nil
		case "fields":
			// fields T mode: f1 f2 ...
			i := strings.IndexByte(rest, ':')
			if i < 0 {
				return nil, fmt.Errorf("%s:%d: bad fields line", path, l.no)
			}
			head := strings.Fields(rest[:i])
			if len(head) != 2 {
				return nil, fmt.Errorf("%s:%d: bad fields head", path, l.no)
			}
			fa := &FieldAnno{Struct: head[0], Mode: head[1], Deep: map[string]bool{}}
			if j := strings.IndexByte(fa.Mode, '('); j > 0 {
				fa.Arg = strings.TrimSuffix(fa.Mode[j+1:], ")")
				fa.Mode = fa.Mode[:j]
			}
			for _, f := range strings.Fields(rest[i+1:]) {
				if strings.HasSuffix(f, "*") {
					f = strings.TrimSuffix(f, "*")
					fa.Deep[f] = true
				}
				fa.Fields = append(fa.Fields, f)
			}
			sf.Fields = append(sf.Fields, fa)
			cur, curInv, curLemma = nil, nil, nil
		case "lockinv":
			// lockinv T.lock
			parts := strings.Split(strings.TrimSuffix(strings.TrimSpace(rest), ":"), ".")
			if len(parts) != 2 {
				return nil, fmt.Errorf("%s:%d: bad lockinv head", path, l.no)
			}
			curInv = &LockInv{Struct: parts[0], Lock: parts[1]}
			sf.LockInvs = append(sf.LockInvs, curInv)
			cur, curLemma = nil, nil
		case "inv":
			if curInv == nil {
				return nil, fmt.Errorf("%s:%d: inv outside of lockinv", path, l.no)
			}
			c, err := mkClause(rest, l.no)
			if err != nil {
				return nil, err
			}
			curInv.Clauses = append(curInv.Clauses, c)
		case "lemma":
			pd, err := parsePureDecl(rest+" bool", false)
			if err != nil {
				return nil, fmt.Errorf("%s:%d: %v", path, l.no, err)
			}
			curLemma = &Lemma{Name: pd.Name, Params: pd.Params, File: path}
			sf.Lemmas = append(sf.Lemmas, curLemma)
			cur, curInv = nil, nil
		case "call":
			if curLemma == nil {
				return nil, fmt.Errorf("%s:%d: call outside of a lemma", path, l.no)
			}
			i := strings.IndexByte(rest, '=')
			if i < 0 {
				return nil, fmt.Errorf("%s:%d: bad call line", path, l.no)
			}
			lc := LemmaCall{Var: strings.TrimSpace(rest[:i]), Line: fmt.Sprintf("%s:%d", path, l.no)}
			rhs := strings.TrimSpace(rest[i+1:])
			j := strings.IndexByte(rhs, '(')
			if j < 0 || !strings.HasSuffix(rhs, ")") {
				return nil, fmt.Errorf("%s:%d: bad call line", path, l.no)
			}
			lc.Func = strings.TrimSpace(rhs[:j])
			for _, a := range splitTop(rhs[j+1:len(rhs)-1], ',') {
				a = strings.TrimSpace(a)
				if a == "" {
					continue
				}
				e, err := ParseSpecExpr(a)
				if err != nil {
					return nil, fmt.Errorf("%s:%d: %v", path, l.no, err)
				}
				lc.Args = append(lc.Args, e)
			}
			curLemma.Calls = append(curLemma.Calls, lc)
		case "chaninv":
			// chaninv T.field <expr over msg and self>
			w, r2 := splitWord(rest)
			parts := strings.Split(w, ".")
			if len(parts) != 2 {
				return nil, fmt.Errorf("%s:%d: bad chaninv head", path, l.no)
			}
			c, err := mkClause(r2, l.no)
			if err != nil {
				return nil, err
			}
			sf.ChanInvs = append(sf.ChanInvs, &ChanInv{Struct: parts[0], Field: parts[1], Clause: c})
		case "axiom":
			c, err := mkClause(rest, l.no)
			if err != nil {
				return nil, err
			}
			sf.Axioms = append(sf.Axioms, c)
		case "chan":
			m := map[string]string{}
			fs := strings.Fields(rest)
			if len(fs) == 0 {
				return nil, fmt.Errorf("%s:%d: bad chan line", path, l.no)
			}
			m["name"] = fs[0]
			for i := 1; i+1 < len(fs); i += 2 {
				m[fs[i]] = fs[i+1]
			}
			sf.Chans = append(sf.Chans, m)
		default:
			return nil, fmt.Errorf("%s:%d: unknown spec keyword %q", path, l.no, word)
		}
	}
	return sf, nil
}

func splitWord(s string) (string, string) {
	s = strings.TrimSpace(s)
	i := strings.IndexAny(s, " \t")
	if i < 0 {
		return s, ""
	}
	return s[:i], strings.TrimSpace(s[i+1:])
}

func splitTop(s string, sep byte) []string {
	var out []string
	d := 0
	start := 0
	inStr := false
	for i := 0; i < len(s); i++ {
		c := s[i]
		if inStr {
			if c == '"' {
				inStr = false
			}
			continue
		}
		switch c {
		case '"':
			inStr = true
		case '(', '[', '{':
			d++
		case ')', ']', '}':
			d--
		default:
			if c == sep && d == 0 {
				out = append(out, s[start:i])
				start = i + 1
			}
		}
	}
	out = append(out, s[start:])
	return out
}

func parsePureDecl(s string, isPred bool) (*PureDef, error) {
	i := strings.IndexByte(s, '(')
	if i < 0 {
		return nil, fmt.Errorf("bad declaration %q", s)
	}
	name := strings.TrimSpace(s[:i])
	// find matching paren
	d := 0
	j := i
	for ; j < len(s); j++ {
		if s[j] == '(' {
			d++
		} else if s[j] == ')' {
			d--
			if d == 0 {
				break
			}
		}
	}
	if j >= len(s) {
		return nil, fmt.Errorf("unbalanced parens in %q", s)
	}
	pd := &PureDef{Name: name}
	for _, p := range splitTop(s[i+1:j], ',') {
		p = strings.TrimSpace(p)
		if p == "" {
			continue
		}
		n, t := splitWord(p)
		pd.Params = append(pd.Params, [2]string{n, t})
	}
	rest := strings.TrimSpace(s[j+1:])
	body := ""
	if k := strings.Index(rest, "="); k >= 0 && !strings.HasPrefix(rest[k:], "==") {
		body = strings.TrimSpace(rest[k+1:])
		rest = strings.TrimSpace(rest[:k])
	}
	pd.Result = rest
	if isPred && pd.Result == "" {
		pd.Result = "bool"
	}
	if body != "" {
		e, err := ParseSpecExpr(body)
		if err != nil {
			return nil, err
		}
		pd.Body = e
	}
	return pd, nil
}

func (ct *Contract) siteSeen(k string) {
	if ct.sitesSeen == nil {
		ct.sitesSeen = map[string]bool{}
	}
	ct.sitesSeen[k] = true
}

// UnmatchedSites lists site keys of the contract that matched no instruction (a renamed
// callee or a removed statement must not silently drop an assertion).
func (ct *Contract) UnmatchedSites() []string {
	var out []string
	for k := range ct.SiteAsserts {
		if !ct.sitesSeen[k] {
			out = append(out, k)
		}
	}
	return out
}

// ChanInv: every message sent on the channel stored in T.field satisfies Clause (over `msg`).
type ChanInv struct {
	Struct string
	Field  string
	Clause Clause
	Pkg    *types.Package
}
