package vc

import (
	"fmt"
	"go/types"
)

// VerifyLemma proves a lemma from the contracts of the functions it calls (never
// from their bodies).
func (c *Ctx) VerifyLemma(name string) (*FuncReport, error) {
	var lm *Lemma
	for _, l := range c.Lemmas {
		if l.Name == name {
			lm = l
		}
	}
	if lm == nil {
		return nil, fmt.Errorf("no lemma %q", name)
	}
	p := c.LemmaPkg[name]
	if p == nil {
		return nil, fmt.Errorf("lemma %q has no package", name)
	}
	key := p.PkgPath + "::lemma " + name
	run := &funcRun{key: key, params: map[string]Value{}, lets: map[string]specVal{}, externUsed: map[string]bool{}, modularUsed: map[string]bool{}, oldCache: map[*SNode]specVal{}}
	c.cur = run
	defer func() { c.cur = nil }()
	before := len(c.Obls)
	st := NewState()
	st.trace = st.trace.push("lemma " + name)
	env := &specEnv{c: c, st: st, vars: map[string]specVal{}, pkg: p.Types}
	for _, pr := range lm.Params {
		t, err := c.resolveType(p.Types, pr[1])
		if err != nil {
			return nil, fmt.Errorf("CONTRACT-ERROR %s: %v", lm.File, err)
		}
		v := c.FreshConst(st, "p."+pr[0], c.Reg.SortOf(t))
		c.AssumeWF(st, v, t)
		env.vars[pr[0]] = specVal{v, t}
		run.modelVars = append(run.modelVars, ModelVar{Name: pr[0], Term: v.S, Sort: v.Sort})
	}
	for _, r := range lm.Requires {
		t, err := c.evalBool(env, r.Expr)
		if err != nil {
			return nil, fmt.Errorf("CONTRACT-ERROR %s: %v", r.Line, err)
		}
		st.Assume(t)
	}
	for _, lc := range lm.Calls {
		fkey := p.PkgPath + "::" + lc.Func
		fn := c.Funcs[fkey]
		ct := c.Contracts[fkey]
		if fn == nil || ct == nil {
			return nil, fmt.Errorf("CONTRACT-ERROR %s: lemma calls %q which has no contract", lc.Line, lc.Func)
		}
		if len(lc.Args) != len(fn.Params) {
			return nil, fmt.Errorf("CONTRACT-ERROR %s: %s expects %d arguments", lc.Line, lc.Func, len(fn.Params))
		}
		sub := &specEnv{c: c, st: st, vars: map[string]specVal{}, pkg: p.Types, fn: fn, post: true}
		for i, a := range lc.Args {
			v, err := c.evalSpec(env, a)
			if err != nil {
				return nil, fmt.Errorf("CONTRACT-ERROR %s: %v", lc.Line, err)
			}
			sub.vars[fn.Params[i].Name()] = specVal{c.coerce(st, v, fn.Params[i].Type()), fn.Params[i].Type()}
		}
		// the callee's precondition must hold for the instantiation to be meaningful
		for i, r := range ct.Requires {
			t, err := c.evalGoal(sub, r.Expr)
			if err != nil {
				return nil, fmt.Errorf("CONTRACT-ERROR %s: %v", r.Line, err)
			}
			c.emit(st, nil, nil, "pre", fmt.Sprintf("%s requires.%d", lc.Func, i+1), t, r.Text, false)
			st.Assume(t)
		}
		res := c.freshResults(st, fn.Signature, "r."+lc.Var)
		sub.results = res
		for _, e := range ct.Ensures {
			t, err := c.evalBool(sub, e.Expr)
			if err != nil {
				return nil, fmt.Errorf("CONTRACT-ERROR %s: %v", e.Line, err)
			}
			st.Assume(t)
		}
		for i, r := range res {
			nm := lc.Var
			if i > 0 {
				nm = fmt.Sprintf("%s%d", lc.Var, i)
			}
			env.vars[nm] = specVal{c.toTerm(st, r), fn.Signature.Results().At(i).Type()}
		}
		run.modularUsed[fkey] = true
	}
	c.emit(st, nil, nil, "cover", "lemma-hypotheses", True, "lemma hypotheses satisfiable", true)
	for i, e := range lm.Ensures {
		t, err := c.evalGoal(env, e.Expr)
		if err != nil {
			return nil, fmt.Errorf("CONTRACT-ERROR %s: %v", e.Line, err)
		}
		label := e.Label
		if label == "" {
			label = fmt.Sprintf("ensures.%d", i+1)
		}
		c.emit(st, nil, nil, "lemma", label, t, e.Text, false)
	}
	rep := &FuncReport{Key: key, Name: c.ShortName(key), Paths: 1, Returns: 1, Reachable: true}
	rep.Obligations = c.Obls[before:]
	rep.Extern, rep.Modular = run.externUsed, run.modularUsed
	return rep, nil
}

var _ = types.Typ
