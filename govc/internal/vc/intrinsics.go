package vc

import (
	"go/constant"
	"strings"
	"fmt"
	"go/types"

	"golang.org/x/tools/go/ssa"
)

type intrinsic func(c *Ctx, st *State, fr *Frame, ins ssa.Instruction, f *ssa.Function, res ssa.Value, args []Value) []cont
type invokeIntrinsic func(c *Ctx, st *State, fr *Frame, ins ssa.Instruction, call *ssa.CallCommon, res ssa.Value, recv Term, args []Value) []cont

var intrinsics map[string]intrinsic
var invokeIntrinsics map[string]invokeIntrinsic

// intrinsicEffects: heap families written by intrinsics (for loop/call summaries).
var intrinsicEffects = map[string][]string{
	"(*sync.Mutex).Lock":       {famHeld, "guarded"},
	"(*sync.Mutex).Unlock":     {famHeld, "guarded"},
	"(*sync.RWMutex).Lock":     {famHeld, "guarded"},
	"(*sync.RWMutex).Unlock":   {famHeld, "guarded"},
	"(*sync.WaitGroup).Add":    {famWg},
	"(*sync.WaitGroup).Done":   {famWg},
	"(*sync.WaitGroup).Wait":   {},
	"(*sync/atomic.Bool).Swap": {"C|atomic.Bool"},
	"(*sync/atomic.Bool).Store": {"C|atomic.Bool"},
	"(*sync/atomic.Bool).Load": {},
	"fmt.Errorf":               {},
	"fmt.Sprintf":              {},
	"fmt.Sprint":               {},
	"errors.New":               {},
	"math.IsNaN":               {},
	"math.IsInf":               {},
	"context.WithCancel":       {},
	"context.WithTimeout":      {},
	"context.Background":       {},
	"time.After":               {},
	"time.Sleep":               {},
	"strings.Join":             {},
	"strings.Replace":          {},
	"strings.Split":            {},
	"strings.ToLower":          {},
	"strings.ToUpper":          {},
	"strings.HasPrefix":        {},
	"strings.HasSuffix":        {},
	"strings.Contains":         {},
	"strconv.FormatInt":        {},
	"strconv.FormatFloat":      {},
	"strconv.FormatBool":       {},
	"strconv.ParseInt":         {},
	"strconv.ParseFloat":       {},
	"strconv.ParseBool":        {},
	"strconv.Itoa":             {},
	"reflect.ValueOf":          {},
	"reflect.TypeOf":           {},
}

func init() {
	intrinsics = map[string]intrinsic{
		"(*sync.Mutex).Lock":        intrLock,
		"(*sync.Mutex).Unlock":      intrUnlock,
		"(*sync.RWMutex).Lock":      intrLock,
		"(*sync.RWMutex).Unlock":    intrUnlock,
		"(*sync.WaitGroup).Add":     intrWgAdd,
		"(*sync.WaitGroup).Done":    intrWgDone,
		"(*sync.WaitGroup).Wait":    intrWgWait,
		"(*sync/atomic.Bool).Swap":  intrAtomicSwap,
		"(*sync/atomic.Bool).Store": intrAtomicStore,
		"(*sync/atomic.Bool).Load":  intrAtomicLoad,
		"fmt.Errorf":                intrNonNilError,
		"fmt.Sprintf":               intrSprintf,
		"strings.Replace":           intrStringsReplace,
		"errors.New":                intrNonNilError,
		"math.IsNaN": func(c *Ctx, st *State, fr *Frame, ins ssa.Instruction, f *ssa.Function, res ssa.Value, args []Value) []cont {
			a := c.toTerm(st, args[0])
			fr.regs[res] = T(SBool, "(fp.isNaN %s)", a.S)
			return one(st, fr)
		},
		"math.IsInf": func(c *Ctx, st *State, fr *Frame, ins ssa.Instruction, f *ssa.Function, res ssa.Value, args []Value) []cont {
			a := c.toTerm(st, args[0])
			s := c.toTerm(st, args[1])
			zero, gt, lt := "0", ">", "<"
			if s.Sort == SBV64 {
				zero, gt, lt = "(_ bv0 64)", "bvsgt", "bvslt"
			}
			fr.regs[res] = c.Name(st, "isinf", T(SBool, "(and (fp.isInfinite %s) (or (= %s %s) (and (%s %s %s) (fp.isPositive %s)) (and (%s %s %s) (fp.isNegative %s))))", a.S, s.S, zero, gt, s.S, zero, a.S, lt, s.S, zero, a.S))
			return one(st, fr)
		},
		"context.WithCancel":  intrWithCancel,
		"context.WithTimeout": intrWithCancel,
		"context.Background": func(c *Ctx, st *State, fr *Frame, ins ssa.Instruction, f *ssa.Function, res ssa.Value, args []Value) []cont {
			v := c.FreshConst(st, "ctx.bg", SAny)
			st.Assume(Not(Eq(v, Term{"nil_any", SAny})))
			fr.regs[res] = v
			return one(st, fr)
		},
		"time.After": func(c *Ctx, st *State, fr *Frame, ins ssa.Instruction, f *ssa.Function, res ssa.Value, args []Value) []cont {
			ch := c.NewRef(st, "timer")
			fr.regs[res] = ch
			return one(st, fr)
		},
		"time.Sleep": func(c *Ctx, st *State, fr *Frame, ins ssa.Instruction, f *ssa.Function, res ssa.Value, args []Value) []cont {
			if len(st.heldLocks) > 0 {
				// sleeping inside a critical section is allowed but noted
			}
			if res != nil {
				fr.regs[res] = Tuple{}
			}
			return one(st, fr)
		},
	}
	invokeIntrinsics = map[string]invokeIntrinsic{
		"(context.Context).Done": func(c *Ctx, st *State, fr *Frame, ins ssa.Instruction, call *ssa.CallCommon, res ssa.Value, recv Term, args []Value) []cont {
			// one channel per context
			c.Reg.DeclFun("ctx_done_chan", []Sort{SAny}, SInt)
			ch := T(SInt, "(ctx_done_chan %s)", recv.S)
			st.Assume(T(SBool, "(> %s 0)", ch.S))
			st.ctxDoneChans = cloneMapTerm(st.ctxDoneChans)
			st.ctxDoneChans[ch.S] = c.ctxID(st, recv)
			fr.regs[res] = ch
			return one(st, fr)
		},
		"(context.Context).Err": func(c *Ctx, st *State, fr *Frame, ins ssa.Instruction, call *ssa.CallCommon, res ssa.Value, recv Term, args []Value) []cont {
			v := c.FreshConst(st, "ctx.err", SAny)
			cd := c.Arr(st, famCtxDone, ArraySort(SInt, SBool))
			// Err() is non-nil exactly when the context is done
			st.Assume(Eq(Select(cd, c.ctxID(st, recv)), Not(Eq(v, Term{"nil_any", SAny}))))
			fr.regs[res] = v
			return one(st, fr)
		},
		"(error).Error": func(c *Ctx, st *State, fr *Frame, ins ssa.Instruction, call *ssa.CallCommon, res ssa.Value, recv Term, args []Value) []cont {
			c.Reg.DeclFun("error_text", []Sort{SAny}, SString)
			fr.regs[res] = T(SString, "(error_text %s)", recv.S)
			return one(st, fr)
		},
	}
}

func cloneMapTerm(m map[string]Term) map[string]Term {
	n := make(map[string]Term, len(m)+1)
	for k, v := range m {
		n[k] = v
	}
	return n
}

func intrNonNilError(c *Ctx, st *State, fr *Frame, ins ssa.Instruction, f *ssa.Function, res ssa.Value, args []Value) []cont {
	v := c.FreshConst(st, "err", SAny)
	st.Assume(Not(Eq(v, Term{"nil_any", SAny})))
	st.Assume(T(SBool, "(not (= (tagof %s) 0))", v.S))
	if res != nil {
		fr.regs[res] = v
	}
	return one(st, fr)
}

// lockTerm: the identity of a mutex is its address.
func lockTerm(c *Ctx, st *State, v Value) Term {
	return c.toTerm(st, v)
}

func intrLock(c *Ctx, st *State, fr *Frame, ins ssa.Instruction, f *ssa.Function, res ssa.Value, args []Value) []cont {
	m := lockTerm(c, st, args[0])
	h := c.Arr(st, famHeld, ArraySort(SInt, SBool))
	c.Oblige(st, fr, ins, "lock", "not-held", Not(Select(h, m)), "Lock of a mutex this goroutine already holds (self-deadlock)")
	if c.cur.contract != nil && c.cur.contract.Opts["lock-order"] != "" && len(st.heldLocks) > 0 {
		c.emit(st, fr, ins, "lock", "order", False, "Lock while another annotated lock is held (lock order "+c.cur.contract.Opts["lock-order"]+")", false)
	}
	c.acquireLockState(st, m)
	// other goroutines may have changed everything the lock protects; the invariant holds
	if o, ok := st.owners[m.S]; ok && !c.isFreshObject(st, o.Obj) {
		// Published[obj]: the object existed when this function was called, or this function has
		// already released its lock once. Only then can others have changed it.
		pub := True
		if c.cur != nil && c.allocatesType(c.cur.fn, o.Struct) {
			pub = Select(c.Arr(st, "Published", ArraySort(SInt, SBool)), o.Obj)
		}
		before := make(map[string]Term, len(st.arrays))
		for k, v := range st.arrays {
			before[k] = v
		}
		c.havocGuardedOf(st, o.Obj, types.NewPointer(o.Struct), o.Field)
		if pub.S != "true" {
			for fam, nw := range st.arrays {
				if old, ok := before[fam]; ok && old.S != nw.S {
					c.SetArr(st, fam, Ite(pub, nw, old))
				}
			}
		}
		c.assumeLockInv(st, fr, o, pub)
	}
	// (an object created by this function whose lock has never been released is not shared
	// yet: nobody else can have changed it, and its invariant need not hold before the first Unlock)
	if res != nil {
		fr.regs[res] = Tuple{}
	}
	return one(st, fr)
}

func intrUnlock(c *Ctx, st *State, fr *Frame, ins ssa.Instruction, f *ssa.Function, res ssa.Value, args []Value) []cont {
	m := lockTerm(c, st, args[0])
	h := c.Arr(st, famHeld, ArraySort(SInt, SBool))
	c.Oblige(st, fr, ins, "lock", "held", Select(h, m), "Unlock of a mutex that is not held")
	if o, ok := st.owners[m.S]; ok {
		c.checkLockInv(st, fr, ins, o)
	}
	c.releaseLockState(st, m)
	if o, ok := st.owners[m.S]; ok {
		// from here on other goroutines may change the guarded fields again
		delete(st.freshObjs, o.Obj.S)
		c.SetArr(st, "Published", Store(c.Arr(st, "Published", ArraySort(SInt, SBool)), o.Obj, True))
		c.havocGuardedOf(st, o.Obj, types.NewPointer(o.Struct), o.Field)
	}
	if res != nil {
		fr.regs[res] = Tuple{}
	}
	return one(st, fr)
}

func (c *Ctx) lockInvEnv(st *State, o ownerInfo) (*specEnv, *LockInv) {
	k := c.Reg.TypeKey(o.Struct)
	li := c.LockInvs[k]
	if li == nil || li.Lock != o.Field {
		return nil, nil
	}
	env := &specEnv{c: c, st: st, vars: map[string]specVal{}, pkg: c.LockInvPkg[k]}
	env.vars["self"] = specVal{o.Obj, types.NewPointer(o.Struct)}
	// fields are visible by their bare names
	sty := o.Struct.Underlying().(*types.Struct)
	for i := 0; i < sty.NumFields(); i++ {
		si := c.Reg.StructInfo(o.Struct)
		l := &Loc{Kind: LocField, Base: o.Obj, Struct: o.Struct, Field: i, Type: si.ftypes[i], Root: si.ftypes[i]}
		env.vars[sty.Field(i).Name()] = specVal{c.LoadLoc(st, l, false), si.ftypes[i]}
	}
	return env, li
}

func (c *Ctx) assumeLockInv(st *State, fr *Frame, o ownerInfo, guard Term) {
	env, li := c.lockInvEnv(st, o)
	if li == nil {
		return
	}
	for _, cl := range li.Clauses {
		t, err := c.evalBool(env, cl.Expr)
		if err != nil {
			c.Errorf("CONTRACT-ERROR %s: %v", cl.Line, err)
			continue
		}
		st.Assume(Implies(guard, t))
	}
}

func (c *Ctx) checkLockInv(st *State, fr *Frame, ins ssa.Instruction, o ownerInfo) {
	env, li := c.lockInvEnv(st, o)
	if li == nil {
		return
	}
	for i, cl := range li.Clauses {
		t, err := c.evalGoal(env, cl.Expr)
		if err != nil {
			c.Errorf("CONTRACT-ERROR %s: %v", cl.Line, err)
			continue
		}
		label := cl.Label
		if label == "" {
			label = fmt.Sprintf("inv.%d", i+1)
		}
		c.emit(st, fr, ins, "lockinv", label, t, cl.Text, false)
	}
}

func intrWgAdd(c *Ctx, st *State, fr *Frame, ins ssa.Instruction, f *ssa.Function, res ssa.Value, args []Value) []cont {
	wg := c.toTerm(st, args[0])
	n := c.toTerm(st, args[1])
	a := c.Arr(st, famWg, ArraySort(SInt, SInt))
	c.SetArr(st, famWg, Store(a, wg, T(SInt, "(+ %s %s)", Select(a, wg).S, n.S)))
	if res != nil {
		fr.regs[res] = Tuple{}
	}
	return one(st, fr)
}

func intrWgDone(c *Ctx, st *State, fr *Frame, ins ssa.Instruction, f *ssa.Function, res ssa.Value, args []Value) []cont {
	wg := c.toTerm(st, args[0])
	a := c.Arr(st, famWg, ArraySort(SInt, SInt))
	// the goroutine gives back the token it was started with
	held := c.Arr(st, "TokHeld", ArraySort(SInt, SInt))
	c.Oblige(st, fr, ins, "token", "done-has-token", T(SBool, "(>= %s 1)", Select(held, wg).S), "wg.Done() is matched by a token this goroutine was registered with")
	c.SetArr(st, "TokHeld", Store(held, wg, T(SInt, "(- %s 1)", Select(held, wg).S)))
	_ = a
	if res != nil {
		fr.regs[res] = Tuple{}
	}
	return one(st, fr)
}

func intrWgWait(c *Ctx, st *State, fr *Frame, ins ssa.Instruction, f *ssa.Function, res ssa.Value, args []Value) []cont {
	wg := c.toTerm(st, args[0])
	w := c.Arr(st, "Waited", ArraySort(SInt, SBool))
	c.SetArr(st, "Waited", Store(w, wg, True))
	{
		h := c.Arr(st, famHeld, ArraySort(SInt, SBool))
		c.emit(st, fr, ins, "nonblocking", "wait-under-lock", Eq(h, ConstArray(ArraySort(SInt, SBool), False)), "WaitGroup.Wait is not called while holding a lock", false)
	}
	if res != nil {
		fr.regs[res] = Tuple{}
	}
	return one(st, fr)
}

const famAtomicBool = "C|atomic.Bool"

func intrAtomicSwap(c *Ctx, st *State, fr *Frame, ins ssa.Instruction, f *ssa.Function, res ssa.Value, args []Value) []cont {
	p := c.toTerm(st, args[0])
	nv := c.toTerm(st, args[1])
	// other goroutines may have changed the flag since the last access: read a fresh value
	old := c.FreshConst(st, "swap.old", SBool)
	a := c.Arr(st, famAtomicBool, ArraySort(SInt, SBool))
	if c.stableAtomic(st, p) {
		st.Assume(Eq(old, Select(a, p)))
	}
	c.SetArr(st, famAtomicBool, Store(a, p, nv))
	if res != nil {
		fr.regs[res] = old
	}
	return one(st, fr)
}

func intrAtomicStore(c *Ctx, st *State, fr *Frame, ins ssa.Instruction, f *ssa.Function, res ssa.Value, args []Value) []cont {
	p := c.toTerm(st, args[0])
	nv := c.toTerm(st, args[1])
	a := c.Arr(st, famAtomicBool, ArraySort(SInt, SBool))
	c.SetArr(st, famAtomicBool, Store(a, p, nv))
	if res != nil {
		fr.regs[res] = Tuple{}
	}
	return one(st, fr)
}

func intrAtomicLoad(c *Ctx, st *State, fr *Frame, ins ssa.Instruction, f *ssa.Function, res ssa.Value, args []Value) []cont {
	p := c.toTerm(st, args[0])
	v := c.FreshConst(st, "aload", SBool)
	a := c.Arr(st, famAtomicBool, ArraySort(SInt, SBool))
	if c.stableAtomic(st, p) {
		st.Assume(Eq(v, Select(a, p)))
	} else if c.monotoneAtomic(st, p) {
		// flags that are only ever set: once true, always true
		st.Assume(Implies(Select(a, p), v))
		c.SetArr(st, famAtomicBool, Store(a, p, v))
	}
	if res != nil {
		fr.regs[res] = v
	}
	return one(st, fr)
}

// stableAtomic: the atomic belongs to an object no other goroutine can see yet.
func (c *Ctx) stableAtomic(st *State, p Term) bool {
	if l, ok := st.locs[p.S]; ok && l.Kind == LocField {
		return st.freshObjs[l.Base.S]
	}
	return false
}

// monotoneAtomic: atomics annotated `atomic` with arg `set-only`.
func (c *Ctx) monotoneAtomic(st *State, p Term) bool {
	if l, ok := st.locs[p.S]; ok && l.Kind == LocField {
		fm := c.fieldModeOf(l)
		return fm != nil && fm.Mode == "atomic" && fm.Arg == "set-only"
	}
	return false
}

func intrWithCancel(c *Ctx, st *State, fr *Frame, ins ssa.Instruction, f *ssa.Function, res ssa.Value, args []Value) []cont {
	ctx := c.FreshConst(st, "ctx", SAny)
	st.Assume(Not(Eq(ctx, Term{"nil_any", SAny})))
	cancel := c.NewRef(st, "cancel")
	// remember which context the cancel function cancels
	c.Reg.DeclFun("cancel_ctx", []Sort{SInt}, SInt)
	st.Assume(T(SBool, "(= (cancel_ctx %s) %s)", cancel.S, c.ctxID(st, ctx).S))
	parent := c.toTerm(st, args[0])
	// a child is done whenever its parent is
	cd := c.Arr(st, famCtxDone, ArraySort(SInt, SBool))
	st.Assume(Implies(Select(cd, c.ctxID(st, parent)), Select(cd, c.ctxID(st, ctx))))
	if res != nil {
		fr.regs[res] = Tuple{ctx, cancel}
	}
	return one(st, fr)
}

// fmt.Sprintf is a deterministic function of its format and arguments: it is modelled by the
// uninterpreted function sprintf_<n>(format, arg1..argn) (also available to contracts as
// sprintf(format, any(a1), ...)). Nothing else is assumed about the resulting string.
func intrSprintf(c *Ctx, st *State, fr *Frame, ins ssa.Instruction, f *ssa.Function, res ssa.Value, args []Value) []cont {
	fresh := func() []cont {
		if res != nil {
			fr.regs[res] = c.FreshConst(st, "sprintf", SString)
		}
		return one(st, fr)
	}
	var call *ssa.CallCommon
	switch x := ins.(type) {
	case *ssa.Call:
		call = &x.Call
	case *ssa.Defer:
		call = &x.Call
	}
	if call == nil || len(call.Args) != 2 || len(args) != 2 {
		return fresh()
	}
	n := -1
	switch v := call.Args[1].(type) {
	case *ssa.Const:
		n = 0
	case *ssa.Slice:
		if pt, ok := v.X.Type().Underlying().(*types.Pointer); ok {
			if at, ok := pt.Elem().Underlying().(*types.Array); ok && v.Low == nil && v.High == nil {
				n = int(at.Len())
			}
		}
	}
	if n < 0 || n > 6 {
		return fresh()
	}
	format := c.toTerm(st, args[0])
	parts := []string{format.S}
	sorts := []Sort{SString}
	if n > 0 {
		sl := c.toTerm(st, args[1])
		et := call.Args[1].Type().Underlying().(*types.Slice).Elem()
		for i := 0; i < n; i++ {
			l := &Loc{Kind: LocElem, Base: T(SInt, "(sl_arr %s)", sl.S), Idx: T(SInt, "(sidx %s %d)", sl.S, i), Type: et, Root: et}
			parts = append(parts, c.LoadLoc(st, l, false).S)
			sorts = append(sorts, SAny)
		}
	}
	fn := fmt.Sprintf("sprintf_%d", n)
	c.Reg.DeclFun(fn, sorts, SString)
	if res != nil {
		if n == 0 {
			fr.regs[res] = T(SString, "(%s %s)", fn, parts[0])
		} else {
			fr.regs[res] = T(SString, "(%s %s)", fn, strings.Join(parts, " "))
		}
	}
	return one(st, fr)
}

// allocatesType: does fn itself create objects of struct type t? (Only then can a lock owner
// met in fn be an object that is not shared yet.)
func (c *Ctx) allocatesType(fn *ssa.Function, t types.Type) bool {
	if c.allocCache == nil {
		c.allocCache = map[*ssa.Function]map[string]bool{}
	}
	m, ok := c.allocCache[fn]
	if !ok {
		m = map[string]bool{}
		for _, b := range fn.Blocks {
			for _, ins := range b.Instrs {
				if a, ok := ins.(*ssa.Alloc); ok {
					m[c.Reg.TypeKey(deref(a.Type()))] = true
				}
			}
		}
		c.allocCache[fn] = m
	}
	return m[c.Reg.TypeKey(t)]
}

// strings.Replace(s, old, new, n): n == 1 is SMT-LIB str.replace (first occurrence; an empty
// old inserts at the front in both), n < 0 is str.replace_all for a non-empty old. Other counts
// give an unknown string.
func intrStringsReplace(c *Ctx, st *State, fr *Frame, ins ssa.Instruction, f *ssa.Function, res ssa.Value, args []Value) []cont {
	if res == nil {
		return one(st, fr)
	}
	var call *ssa.CallCommon
	if x, ok := ins.(*ssa.Call); ok {
		call = &x.Call
	}
	fresh := func() []cont {
		fr.regs[res] = c.FreshConst(st, "replace", SString)
		return one(st, fr)
	}
	if call == nil || len(args) != 4 {
		return fresh()
	}
	k, ok := call.Args[3].(*ssa.Const)
	if !ok || k.Value == nil {
		return fresh()
	}
	n, exact := constant.Int64Val(constant.ToInt(k.Value))
	if !exact {
		return fresh()
	}
	s0, old, nw := c.toTerm(st, args[0]), c.toTerm(st, args[1]), c.toTerm(st, args[2])
	switch {
	case n == 1:
		// stated by the two cases solvers can actually use (old is a prefix; old does not occur);
		// the general definition (str.replace) makes the string solvers diverge and is left out
		r := c.FreshConst(st, "replace", SString)
		st.Assume(T(SBool, "(=> (str.prefixof %s %s) (= %s (str.++ %s (str.substr %s (str.len %s) (- (str.len %s) (str.len %s))))))", old.S, s0.S, r.S, nw.S, s0.S, old.S, s0.S, old.S))
		st.Assume(T(SBool, "(=> (not (str.contains %s %s)) (= %s %s))", s0.S, old.S, r.S, s0.S))
		fr.regs[res] = r
	case n < 0:
		r := c.FreshConst(st, "replace", SString)
		st.Assume(T(SBool, "(=> (not (= %s \"\")) (= %s (str.replace_all %s %s %s)))", old.S, r.S, s0.S, old.S, nw.S))
		fr.regs[res] = r
	default:
		return fresh()
	}
	return one(st, fr)
}
