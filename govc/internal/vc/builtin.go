package vc

import (
	"crypto/sha256"
	"encoding/hex"
	"fmt"
	"go/constant"
	"go/types"
	"os"
	"sort"
	"strings"

	"golang.org/x/tools/go/ssa"
)

// SourceHash is the SHA-256 of the source text of a function.
func (c *Ctx) SourceHash(key string) string {
	fn := c.Funcs[key]
	if fn == nil || fn.Syntax() == nil {
		return ""
	}
	p0, p1 := c.Fset.Position(fn.Syntax().Pos()), c.Fset.Position(fn.Syntax().End())
	data, err := os.ReadFile(p0.Filename)
	if err != nil || p1.Offset > len(data) {
		return ""
	}
	h := sha256.Sum256(data[p0.Offset:p1.Offset])
	return hex.EncodeToString(h[:])
}

// FunctionsOfPackage lists the source-level functions (with bodies) of a package.
func (c *Ctx) FunctionsOfPackage(path string) []string {
	var out []string
	for k, f := range c.Funcs {
		if !strings.HasPrefix(k, path+"::") || len(f.Blocks) == 0 || f.Syntax() == nil {
			continue
		}
		if f.Synthetic != "" || f.Name() == "init" {
			continue
		}
		out = append(out, k)
	}
	sort.Strings(out)
	return out
}

// ---------------------------------------------------------------------------
// Declared schemas of built-in expression functions, read from the constructor's SSA
// ---------------------------------------------------------------------------

type declType struct {
	Kind    string // int float string bool list any unknown
	Pattern string
	HasPat  bool
	Elem    *declType
}

func (d *declType) String() string {
	if d == nil {
		return "?"
	}
	s := d.Kind
	if d.Elem != nil {
		s += "[" + d.Elem.String() + "]"
	}
	if d.HasPat {
		s += fmt.Sprintf("(pattern %q)", d.Pattern)
	}
	return s
}

type builtinDecl struct {
	ID        string
	Params    []*declType
	Result    *declType
	Dynamic   bool
	Handler   *ssa.Function
	ErrResult bool
	Call      *ssa.Call
}

func (c *Ctx) declOfValue(v ssa.Value) *declType {
	if mi, ok := v.(*ssa.MakeInterface); ok {
		v = mi.X
	}
	call, ok := v.(*ssa.Call)
	if !ok {
		return &declType{Kind: "unknown"}
	}
	f, ok := call.Call.Value.(*ssa.Function)
	if !ok {
		return &declType{Kind: "unknown"}
	}
	switch f.Name() {
	case "NewIntSchema":
		return &declType{Kind: "int"}
	case "NewFloatSchema":
		return &declType{Kind: "float"}
	case "NewBoolSchema":
		return &declType{Kind: "bool"}
	case "NewAnySchema":
		return &declType{Kind: "any"}
	case "NewStringSchema":
		d := &declType{Kind: "string"}
		if len(call.Call.Args) >= 3 {
			if pc, ok := call.Call.Args[2].(*ssa.Call); ok {
				if pf, ok := pc.Call.Value.(*ssa.Function); ok && pf.Name() == "MustCompile" && len(pc.Call.Args) == 1 {
					if k, ok := pc.Call.Args[0].(*ssa.Const); ok && k.Value != nil && k.Value.Kind() == constant.String {
						d.Pattern = constant.StringVal(k.Value)
						d.HasPat = true
					} else {
						d.Kind = "unknown"
					}
				}
			} else if k, ok := call.Call.Args[2].(*ssa.Const); !ok || k.Value != nil {
				d.Kind = "unknown"
			}
		}
		return d
	case "NewListSchema":
		return &declType{Kind: "list", Elem: c.declOfValue(call.Call.Args[0])}
	}
	return &declType{Kind: "unknown"}
}

// ExtractBuiltin reads the declaration made by a get*Function constructor.
func (c *Ctx) ExtractBuiltin(key string) (*builtinDecl, error) {
	fn := c.Funcs[key]
	if fn == nil {
		return nil, fmt.Errorf("no function %q", key)
	}
	var found *ssa.Call
	for _, b := range fn.Blocks {
		for _, ins := range b.Instrs {
			if call, ok := ins.(*ssa.Call); ok {
				if f, ok := call.Call.Value.(*ssa.Function); ok && (f.Name() == "NewCallableFunction" || f.Name() == "NewDynamicCallableFunction") {
					if found != nil {
						return nil, fmt.Errorf("%s: more than one function declaration", key)
					}
					found = call
				}
			}
		}
	}
	if found == nil {
		return nil, fmt.Errorf("%s: no call of schema.NewCallableFunction found", key)
	}
	f := found.Call.Value.(*ssa.Function)
	d := &builtinDecl{Call: found, Dynamic: f.Name() == "NewDynamicCallableFunction"}
	args := found.Call.Args
	if k, ok := args[0].(*ssa.Const); ok && k.Value != nil {
		d.ID = constant.StringVal(k.Value)
	}
	// parameter list: a slice of a freshly allocated array filled by stores
	sl, ok := args[1].(*ssa.Slice)
	if !ok {
		return nil, fmt.Errorf("%s: parameter list is not a slice literal", key)
	}
	arr := sl.X
	n := int(deref(arr.Type()).Underlying().(*types.Array).Len())
	d.Params = make([]*declType, n)
	for _, b := range fn.Blocks {
		for _, ins := range b.Instrs {
			st, ok := ins.(*ssa.Store)
			if !ok {
				continue
			}
			ia, ok := st.Addr.(*ssa.IndexAddr)
			if !ok || ia.X != arr {
				continue
			}
			if i, ok := constInt(ia.Index); ok && int(i) < n {
				d.Params[i] = c.declOfValue(st.Val)
			}
		}
	}
	for i, p := range d.Params {
		if p == nil {
			return nil, fmt.Errorf("%s: parameter %d has no declared schema", key, i)
		}
	}
	hIdx := 5
	if d.Dynamic {
		hIdx = 3
		d.Result = &declType{Kind: "dynamic"}
		d.ErrResult = true
	} else {
		d.Result = c.declOfValue(args[2])
		if k, ok := args[3].(*ssa.Const); ok && k.Value != nil {
			d.ErrResult = constant.BoolVal(k.Value)
		}
	}
	hv := args[hIdx]
	if mi, ok := hv.(*ssa.MakeInterface); ok {
		hv = mi.X
	}
	switch h := hv.(type) {
	case *ssa.Function:
		d.Handler = h
	case *ssa.MakeClosure:
		d.Handler = h.Fn.(*ssa.Function)
	default:
		return nil, fmt.Errorf("%s: handler is not a function literal or function", key)
	}
	return d, nil
}

func goKind(t types.Type) string {
	switch u := t.Underlying().(type) {
	case *types.Basic:
		switch {
		case u.Kind() == types.Int64:
			return "int"
		case u.Kind() == types.Float64:
			return "float"
		case u.Kind() == types.String:
			return "string"
		case u.Kind() == types.Bool:
			return "bool"
		}
	case *types.Slice:
		return "list"
	case *types.Interface:
		if u.NumMethods() == 0 {
			return "any"
		}
	}
	return "other:" + t.String()
}

func kindsAgree(d *declType, t types.Type) bool {
	gk := goKind(t)
	if d.Kind == "dynamic" {
		return gk == "any"
	}
	if d.Kind != gk {
		return false
	}
	if d.Kind == "list" {
		return kindsAgree(d.Elem, t.Underlying().(*types.Slice).Elem())
	}
	return true
}

func quoteSpec(s string) string {
	return "\"" + strings.ReplaceAll(strings.ReplaceAll(s, "\\", "\\\\"), "\"", "\\\"") + "\""
}

// VerifyBuiltin verifies the handler of a built-in function against the contract
// derived from its declared schemas (parameter patterns are preconditions; result
// kind and pattern are postconditions), merged with the hand-written contract.
func (c *Ctx) VerifyBuiltin(ctorKey string) (*FuncReport, error) {
	d, err := c.ExtractBuiltin(ctorKey)
	if err != nil {
		return nil, fmt.Errorf("CONTRACT-ERROR %v", err)
	}
	h := d.Handler
	sig := h.Signature
	mk := func(label, text string) (Clause, error) {
		e, err := ParseSpecExpr(text)
		if err != nil {
			return Clause{}, err
		}
		return Clause{Label: label, Text: text, Expr: e, Line: "declared schema of " + d.ID}, nil
	}
	// parameter names
	var pnames []string
	if len(h.Blocks) > 0 {
		for _, p := range h.Params {
			pnames = append(pnames, p.Name())
		}
	} else {
		for i := 0; i < sig.Params().Len(); i++ {
			pnames = append(pnames, fmt.Sprintf("arg%d", i))
		}
	}
	var req, ens []Clause
	var patConds []string
	for i, p := range d.Params {
		if p.HasPat && i < len(pnames) {
			cl, err := mk(fmt.Sprintf("declared-param-pattern.%d", i), fmt.Sprintf("inre(%s, %s)", pnames[i], quoteSpec(p.Pattern)))
			if err != nil {
				return nil, err
			}
			// The expression library calls a handler with whatever the argument expressions evaluate
			// to: the declared parameter patterns are NOT enforced at call time. They are therefore
			// no precondition of the handler (its no-panic obligations hold for all arguments); they
			// only condition the declared result pattern below.
			_ = cl
			patConds = append(patConds, fmt.Sprintf("inre(entry_%s, %s)", pnames[i], quoteSpec(p.Pattern)))
		}
	}
	if d.Result.HasPat {
		text := fmt.Sprintf("inre(result, %s)", quoteSpec(d.Result.Pattern))
		if sig.Results().Len() == 2 {
			text = "result1 == nil ==> " + text
		}
		if len(patConds) > 0 {
			text = "(" + strings.Join(patConds, " && ") + ") ==> (" + text + ")"
		}
		cl, err := mk("declared-result-pattern", text)
		if err != nil {
			return nil, err
		}
		ens = append(ens, cl)
	}
	name := c.ShortName(ctorKey)
	// static agreement of Go types with the declared kinds
	typed := func(run *funcRun, st *State) {
		okArity := sig.Params().Len() == len(d.Params)
		c.emit(st, nil, nil, "typed", "arity", BoolLit(okArity), fmt.Sprintf("%s declares %d parameters, handler takes %d", d.ID, len(d.Params), sig.Params().Len()), false)
		for i := 0; okArity && i < len(d.Params); i++ {
			c.emit(st, nil, nil, "typed", fmt.Sprintf("param.%d", i), BoolLit(kindsAgree(d.Params[i], sig.Params().At(i).Type())),
				fmt.Sprintf("%s parameter %d declared %s, handler takes %s", d.ID, i, d.Params[i], sig.Params().At(i).Type()), false)
		}
		for i := 0; okArity && i < len(d.Params); i++ {
			if d.Params[i].Kind != "list" {
				continue
			}
			// A list schema validates every Go slice whose items validate ([]string as much as []any), and
			// the expression library passes the evaluated argument on unchanged: reflect.Call accepts it
			// only when the handler's parameter is an interface type.
			_, isIface := sig.Params().At(i).Type().Underlying().(*types.Interface)
			c.emit(st, nil, nil, "typed", fmt.Sprintf("param.%d-takes-every-list-its-schema-accepts", i), BoolLit(isIface),
				fmt.Sprintf("%s parameter %d is declared a list; the handler takes %s, which reflect.Call refuses for any other slice type", d.ID, i, sig.Params().At(i).Type()), false)
		}
		nres := sig.Results().Len()
		okRes := nres >= 1 && kindsAgree(d.Result, sig.Results().At(0).Type())
		c.emit(st, nil, nil, "typed", "result", BoolLit(okRes), fmt.Sprintf("%s result declared %s, handler returns %s", d.ID, d.Result, sig.Results()), false)
		okErr := (nres == 2) == d.ErrResult
		c.emit(st, nil, nil, "typed", "error-result", BoolLit(okErr), fmt.Sprintf("%s declares outputsError=%v, handler has %d results", d.ID, d.ErrResult, nres), false)
	}
	if len(h.Blocks) > 0 && h.Pkg != nil && strings.HasPrefix(h.Pkg.Pkg.Path(), c.ModulePath) {
		hkey := c.FuncKey(h)
		orig := c.Contracts[hkey]
		merged := &Contract{Key: hkey, File: "declared schema of " + d.ID, LoopInv: map[int][]Clause{}, LoopMod: map[int][]string{}, Opts: map[string]string{}}
		if orig != nil {
			cp := *orig
			merged = &cp
		}
		merged.Requires = append(append([]Clause(nil), req...), merged.Requires...)
		merged.Ensures = append(append([]Clause(nil), merged.Ensures...), ens...)
		c.Contracts[hkey] = merged
		defer func() {
			if orig != nil {
				c.Contracts[hkey] = orig
			} else {
				delete(c.Contracts, hkey)
			}
		}()
		c.afterEntry = typed
		rep, err := c.VerifyFunction(hkey)
		c.afterEntry = nil
		if err != nil {
			return nil, err
		}
		return rep, nil
	}
	// handler is an external function: check the declared result pattern against its assumed contract
	key := name + "[" + d.ID + " -> " + h.String() + "]"
	run := &funcRun{key: key, params: map[string]Value{}, lets: map[string]specVal{}, externUsed: map[string]bool{}, modularUsed: map[string]bool{}, oldCache: map[*SNode]specVal{}}
	c.cur = run
	defer func() { c.cur = nil }()
	before := len(c.Obls)
	st := NewState()
	st.trace = st.trace.push("declared schema of " + d.ID)
	typed(run, st)
	args := make([]Value, sig.Params().Len())
	env := &specEnv{c: c, st: st, vars: map[string]specVal{}}
	for i := range args {
		t := sig.Params().At(i).Type()
		v := c.FreshConst(st, "p."+pnames[i], c.Reg.SortOf(t))
		c.AssumeWF(st, v, t)
		args[i] = v
		env.vars[pnames[i]] = specVal{v, t}
		env.vars["entry_"+pnames[i]] = specVal{v, t}
		run.modelVars = append(run.modelVars, ModelVar{Name: pnames[i], Term: v.S, Sort: v.Sort})
	}
	for _, r := range req {
		t, err := c.evalBool(env, r.Expr)
		if err != nil {
			return nil, fmt.Errorf("CONTRACT-ERROR %s: %v", r.Line, err)
		}
		st.Assume(t)
	}
	c.emit(st, nil, nil, "cover", "precondition", True, "declared parameter patterns satisfiable", true)
	if d.Result.HasPat {
		ct := c.Contracts[h.String()]
		if ct == nil {
			ct = &Contract{Key: h.String(), Extern: true, LoopInv: map[int][]Clause{}, LoopMod: map[int][]string{}, Opts: map[string]string{}}
		}
		fr := &Frame{fn: h, regs: map[ssa.Value]Value{}}
		vals := c.applyContract(st, fr, nil, ct, nil, nil, sig, args, h.String())
		env.post = true
		env.results = vals
		for i := 0; i < sig.Results().Len(); i++ {
			env.resTypes = append(env.resTypes, sig.Results().At(i).Type())
		}
		for _, e := range ens {
			t, err := c.evalGoal(env, e.Expr)
			if err != nil {
				return nil, fmt.Errorf("CONTRACT-ERROR %s: %v", e.Line, err)
			}
			c.emit(st, nil, nil, "post", e.Label, t, e.Text, false)
		}
	} else {
		run.externUsed[h.String()] = true
	}
	rep := &FuncReport{Key: key, Name: key, Paths: 1, Returns: 1, Reachable: true}
	rep.Obligations = c.Obls[before:]
	rep.Extern, rep.Modular = run.externUsed, run.modularUsed
	return rep, nil
}
