package vc

import (
	"fmt"
	"go/types"
	"strings"

	"golang.org/x/tools/go/ssa"
)

func (c *Ctx) doCall(st *State, fr *Frame, ins ssa.Instruction, call *ssa.CallCommon, res ssa.Value) []cont {
	var fnVal Value
	if _, isB := call.Value.(*ssa.Builtin); !isB {
		fnVal = c.reg(fr, call.Value, st)
	}
	args := make([]Value, len(call.Args))
	for i, a := range call.Args {
		args[i] = c.reg(fr, a, st)
	}
	// a pointer-receiver method called on a package-level variable itself (`var memo sync.Map`,
	// `var mu sync.Mutex`) changes process-global state: outside of package initialisation that is
	// the same obligation as a store to the variable
	if !call.IsInvoke() && len(call.Args) > 0 && c.cur != nil && !c.cur.isInit && ins != nil && ins.Parent() != nil && ins.Parent().Name() != "init" {
		if g, ok := call.Args[0].(*ssa.Global); ok {
			if cf, ok := call.Value.(*ssa.Function); ok && cf.Signature.Recv() != nil {
				if _, isPtr := cf.Signature.Recv().Type().Underlying().(*types.Pointer); isPtr {
					c.emit(st, fr, ins, "access", "global-write", False, "pointer-receiver method "+cf.Name()+" called on package-level variable "+g.Name()+" outside of package initialisation", false)
				}
			}
		}
	}
	return c.doCallCommon(st, fr, ins, call, res, fnVal, args, false)
}

func (c *Ctx) bindResult(fr *Frame, res ssa.Value, sig *types.Signature, vals []Value) {
	if res == nil {
		return
	}
	if ins, ok := res.(ssa.Instruction); ok && c.curState != nil && fr.depth == 0 {
		if si, ok := c.sitesOf(ins.Parent())[ins]; ok && strings.HasPrefix(si.class, "call ") {
			c.curState.callResults[fmt.Sprintf("%s#%d", strings.TrimPrefix(si.class, "call "), si.ord)] = vals
		}
	}
	switch sig.Results().Len() {
	case 0:
		fr.regs[res] = Tuple{}
	case 1:
		if len(vals) == 1 {
			fr.regs[res] = vals[0]
		}
	default:
		fr.regs[res] = Tuple(vals)
	}
}

func (c *Ctx) freshResults(st *State, sig *types.Signature, prefix string) []Value {
	out := make([]Value, sig.Results().Len())
	for i := 0; i < sig.Results().Len(); i++ {
		t := sig.Results().At(i).Type()
		v := c.FreshConst(st, prefix, c.Reg.SortOf(t))
		c.AssumeWF(st, v, t)
		out[i] = v
	}
	return out
}

func (c *Ctx) toTerm(st *State, v Value) Term {
	switch x := v.(type) {
	case Term:
		return x
	case *Loc:
		return c.LowerLoc(st, x)
	}
	panic(fmt.Sprintf("value %T is not a term", v))
}

// doCallCommon dispatches a call (also used for deferred calls).
func (c *Ctx) doCallCommon(st *State, fr *Frame, ins ssa.Instruction, call *ssa.CallCommon, res ssa.Value, fnVal Value, args []Value, isDefer bool) []cont {
	c.curState = st
	if fr.depth == 0 && ins != nil {
		if si, ok := c.sitesOf(ins.Parent())[ins]; ok && strings.HasPrefix(si.class, "call ") {
			st.callArgs[fmt.Sprintf("%s#%d", strings.TrimPrefix(si.class, "call "), si.ord)] = args
			if call.IsInvoke() && fnVal != nil {
				st.callArgs[fmt.Sprintf("recv:%s#%d", strings.TrimPrefix(si.class, "call "), si.ord)] = []Value{fnVal}
			}
		}
	}
	sig := call.Signature()
	if b, ok := call.Value.(*ssa.Builtin); ok && !call.IsInvoke() {
		return c.doBuiltin(st, fr, ins, b, call, res, args)
	}
	if call.IsInvoke() {
		recv := c.toTerm(st, fnVal)
		key := c.methodKey(call)
		c.Oblige(st, fr, ins, "nopanic", "nil-receiver", Not(Eq(recv, Term{"nil_any", SAny})), "method call on nil interface value")
		if ct := c.Contracts[key]; ct != nil {
			return c.callByContract(st, fr, ins, ct, nil, call.Method, sig, res, append([]Value{recv}, args...), key)
		}
		// dynamic type known: resolve
		if dyn, ok := st.boxed[recv.S]; ok {
			if f := c.Prog.LookupMethod(dyn, call.Method.Pkg(), call.Method.Name()); f != nil {
				payload := c.Unbox(st, recv, dyn)
				return c.callStatic(st, fr, ins, f, nil, sig, res, append([]Value{payload}, args...))
			}
		}
		// declared dispatch: the receiver must have the declared dynamic type
		if dyn, ok := c.dispatch[c.ifaceName(call)]; ok {
			if f := c.Prog.LookupMethod(dyn, call.Method.Pkg(), call.Method.Name()); f != nil {
				c.Oblige(st, fr, ins, "dispatch", "", c.TagIs(recv, dyn), "receiver of "+call.Method.Name()+" has dynamic type "+c.shortType(dyn))
				payload := c.Unbox(st, recv, dyn)
				return c.callStatic(st, fr, ins, f, nil, sig, res, append([]Value{payload}, args...))
			}
		}
		// single implementation inside the module
		if f, dyn := c.singleImpl(call); f != nil {
			st.Assume(c.TagIs(recv, dyn))
			payload := c.Unbox(st, recv, dyn)
			return c.callStatic(st, fr, ins, f, nil, sig, res, append([]Value{payload}, args...))
		}
		if ih, ok := invokeIntrinsics[key]; ok {
			return ih(c, st, fr, ins, call, res, recv, args)
		}
		return c.callUnknown(st, fr, ins, sig, res, args, c.isRepoType(call.Value.Type()), key)
	}
	ft, ok := fnVal.(Term)
	if ok {
		if cl, known := st.closures[ft.S]; known {
			return c.callStatic(st, fr, ins, cl.Fn, cl.Bindings, sig, res, args)
		}
	}
	// call through an unknown function value
	if ok {
		c.Oblige(st, fr, ins, "nopanic", "nil-func", Not(Eq(ft, IntLit(0))), "call of nil function value")
	}
	if ok {
		// a function value loaded from a struct field that has a declared contract
		o, known := st.owners[ft.S]
		if !known {
			if a, ok2 := st.aliases[ft.S]; ok2 {
				o, known = st.owners[a]
			}
		}
		if known {
			if ct := c.Contracts["field:"+c.Reg.TypeKey(o.Struct)+"|"+o.Field]; ct != nil {
				return c.callByContract(st, fr, ins, ct, nil, nil, sig, res, args, "field:"+typeName(o.Struct)+"."+o.Field)
			}
		}
	}
	if ok && c.shortType(call.Value.Type()) == "context.CancelFunc" {
		// cancelling marks the associated context done and has no other modelled effect
		c.Reg.DeclFun("cancel_ctx", []Sort{SInt}, SInt)
		cd := c.Arr(st, famCtxDone, ArraySort(SInt, SBool))
		c.SetArr(st, famCtxDone, Store(cd, T(SInt, "(cancel_ctx %s)", ft.S), True))
		c.bindResult(fr, res, sig, nil)
		return one(st, fr)
	}
	return c.callUnknown(st, fr, ins, sig, res, args, true, "funcvalue")
}

// singleImpl finds the unique module type implementing the interface of an invoke call.
func (c *Ctx) singleImpl(call *ssa.CallCommon) (*ssa.Function, types.Type) {
	it, ok := call.Value.Type().Underlying().(*types.Interface)
	if !ok || !c.isRepoType(call.Value.Type()) {
		return nil, nil
	}
	var found *ssa.Function
	var foundT types.Type
	n := 0
	for _, sp := range c.SSAPkgs {
		if sp == nil {
			continue
		}
		for _, m := range sp.Members {
			tm, ok := m.(*ssa.Type)
			if !ok {
				continue
			}
			for _, t := range []types.Type{tm.Type(), types.NewPointer(tm.Type())} {
				if _, isI := t.Underlying().(*types.Interface); isI {
					continue
				}
				if types.Implements(t, it) {
					// prefer the value type only when the pointer type is not the one used
					if f := c.Prog.LookupMethod(t, call.Method.Pkg(), call.Method.Name()); f != nil {
						if _, isPtr := t.(*types.Pointer); isPtr {
							if types.Implements(tm.Type(), it) {
								continue // value type already counted
							}
						}
						n++
						found, foundT = f, t
					}
				}
			}
		}
	}
	if n == 1 && c.Contracts["opt:single-impl:"+c.methodKey(call)] == nil {
		// only trusted when the interface is unexported-implementable: it has an unexported
		// method or the spec explicitly says so
		if c.singleImplAllowed[c.ifaceName(call)] {
			return found, foundT
		}
	}
	return nil, nil
}

func (c *Ctx) ifaceName(call *ssa.CallCommon) string {
	name := types.TypeString(call.Value.Type(), func(p *types.Package) string { return p.Path() })
	return typeArgRe.ReplaceAllString(name, "")
}

func (c *Ctx) callStatic(st *State, fr *Frame, ins ssa.Instruction, f *ssa.Function, bindings []Value, sig *types.Signature, res ssa.Value, args []Value) []cont {
	full := f.String()
	if f.Origin() != nil {
		full = f.Origin().String()
	}
	full = typeArgRe.ReplaceAllString(full, "")
	if h, ok := intrinsics[full]; ok {
		conts := h(c, st, fr, ins, f, res, args)
		// make the result of a modelled library call visible to callres()
		if cins, ok := res.(ssa.Instruction); ok && res != nil && fr.depth == 0 {
			if si, ok := c.sitesOf(cins.Parent())[cins]; ok && strings.HasPrefix(si.class, "call ") {
				for _, ct := range conts {
					if v, ok := ct.fr.regs[res]; ok {
						var vals []Value
						if tup, isT := v.(Tuple); isT {
							vals = []Value(tup)
						} else {
							vals = []Value{v}
						}
						ct.st.callResults[fmt.Sprintf("%s#%d", strings.TrimPrefix(si.class, "call "), si.ord)] = vals
					}
				}
			}
		}
		return conts
	}
	if c.cur != nil && c.cur.isInit {
		// while executing package initialisers: initialisers of other module packages are
		// executed too, everything else outside the module is a plain external call
		if f.Name() == "init" && f.Synthetic != "" && len(f.Blocks) == 0 {
			c.bindResult(fr, res, sig, nil)
			return one(st, fr)
		}
	}
	key := c.FuncKey(f)
	if ct := c.Contracts[key]; ct != nil && ct.Opts["inline"] == "" {
		if len(ct.Requires)+len(ct.Ensures) > 0 || ct.HasModifies || len(f.Blocks) == 0 || ct.Opts["modular"] != "" {
			return c.callByContract(st, fr, ins, ct, f, nil, sig, res, args, key)
		}
	}
	if ct := c.Contracts[full]; ct != nil {
		return c.callByContract(st, fr, ins, ct, f, nil, sig, res, args, full)
	}
	if len(f.Blocks) == 0 {
		return c.callUnknown(st, fr, ins, sig, res, args, false, full)
	}
	// body available and no contract: execute in place
	if fr.depth >= c.MaxInline || c.onStack(fr, f) {
		c.cur.notes = append(c.cur.notes, fmt.Sprintf("call to %s not inlined (depth/recursion): treated as havoc of everything", c.ShortName(key)))
		return c.callUnknown(st, fr, ins, sig, res, args, true, key)
	}
	sub := &Frame{}
	_ = sub
	outs := c.execInline(st, fr, f, args, bindings)
	var conts []cont
	for _, o := range outs {
		nf := o.callerFrame
		c.bindResult(nf, res, sig, o.results)
		conts = append(conts, cont{o.st, nf})
	}
	return conts
}

type inlineOutcome struct {
	st          *State
	results     []Value
	callerFrame *Frame
}

func (c *Ctx) onStack(fr *Frame, f *ssa.Function) bool {
	for _, g := range c.inlineStack {
		if g == f {
			return true
		}
	}
	return fr.fn == f
}

func (c *Ctx) execInline(st *State, fr *Frame, f *ssa.Function, args []Value, bindings []Value) []inlineOutcome {
	c.inlineStack = append(c.inlineStack, f)
	defer func() { c.inlineStack = c.inlineStack[:len(c.inlineStack)-1] }()
	label := c.ShortName(c.FuncKey(f))
	if i := strings.Index(label, "."); i >= 0 && f.Pkg == c.cur.fn.Pkg {
		label = label[i+1:]
	}
	if fr.depth > 0 {
		label = fr.callee + ">" + label
	}
	st.trace = st.trace.push("call " + label)
	outs := c.execFunc(st, f, args, bindings, execOpts{callee: label, depth: fr.depth + 1})
	var res []inlineOutcome
	first := true
	for _, o := range outs {
		nf := fr
		if !first {
			nf = fr.clone()
		}
		first = false
		o.st.trace = o.st.trace.push("ret " + label)
		res = append(res, inlineOutcome{o.st, o.results, nf})
	}
	// every continuation needs its own frame copy, the first one reuses fr only if it
	// is the only one; otherwise clone all to avoid sharing register maps
	if len(res) > 1 {
		for i := range res {
			res[i].callerFrame = fr.clone()
		}
	}
	return res
}

// callUnknown models a call whose body and contract are unavailable.
func (c *Ctx) callUnknown(st *State, fr *Frame, ins ssa.Instruction, sig *types.Signature, res ssa.Value, args []Value, effects bool, what string) []cont {
	if effects {
		c.HavocAll(st, true)
	} else {
		// an external function may write through the maps, slices and pointers it is given
		c.havocArgs(st, sig, args)
	}
	c.cur.externUsed[what] = true
	vals := c.freshResults(st, sig, "r")
	c.bindResult(fr, res, sig, vals)
	return one(st, fr)
}

func (c *Ctx) havocArgs(st *State, sig *types.Signature, args []Value) {
	params := sig.Params()
	off := len(args) - params.Len()
	for i, a := range args {
		if i < off {
			continue
		}
		pt := params.At(i - off).Type()
		if sig.Variadic() && i-off == params.Len()-1 {
			continue // variadic packs are read-only for the externals we meet
		}
		t, ok := a.(Term)
		if !ok {
			continue
		}
		switch u := pt.Underlying().(type) {
		case *types.Map:
			c.havocMapObj(st, t, u)
		case *types.Slice:
			fam, sort := c.famElem(u.Elem())
			arr := c.Arr(st, fam, sort)
			c.SetArr(st, fam, Store(arr, T(SInt, "(sl_arr %s)", t.S), c.FreshConst(st, "hv", arrayElem(sort))))
		}
	}
}

func (c *Ctx) havocMapObj(st *State, m Term, mt *types.Map) {
	dfam, dsort := c.famMapDom(mt)
	vfam, vsort := c.famMapVal(mt)
	c.SetArr(st, dfam, Store(c.Arr(st, dfam, dsort), m, c.FreshConst(st, "hv", arrayElem(dsort))))
	c.SetArr(st, vfam, Store(c.Arr(st, vfam, vsort), m, c.FreshConst(st, "hv", arrayElem(vsort))))
	nl := c.FreshConst(st, "hv", SInt)
	st.Assume(T(SBool, "(>= %s 0)", nl.S))
	c.SetArr(st, famMapLen, Store(c.Arr(st, famMapLen, ArraySort(SInt, SInt)), m, nl))
}

// callByContract: assert pre, havoc frame, assume post.
func (c *Ctx) callByContract(st *State, fr *Frame, ins ssa.Instruction, ct *Contract, f *ssa.Function, method *types.Func, sig *types.Signature, res ssa.Value, args []Value, key string) []cont {
	vals := c.applyContract(st, fr, ins, ct, f, method, sig, args, key)
	c.bindResult(fr, res, sig, vals)
	return one(st, fr)
}

// applyContract: assert pre, havoc frame, assume post; returns the (fresh) results.
func (c *Ctx) applyContract(st *State, fr *Frame, ins ssa.Instruction, ct *Contract, f *ssa.Function, method *types.Func, sig *types.Signature, args []Value, key string) []Value {
	env := &specEnv{c: c, st: st, vars: map[string]specVal{}, callee: true}
	reachPre := c.reachPreQuery(st, fr, ins)
	// bind parameter names
	var names []string
	var ptypes []types.Type
	if f != nil && len(f.Params) == len(args) {
		for _, p := range f.Params {
			names = append(names, p.Name())
			ptypes = append(ptypes, p.Type())
		}
		env.pkg = c.typesPkgOf(f)
		env.fn = f
		if len(ct.Params) == len(names) && ct.Extern {
			copy(names, ct.Params)
		}
	} else {
		// interface method or extern function: receiver (if any) then parameters
		n := sig.Params().Len()
		off := len(args) - n
		if off == 1 {
			names = append(names, "self")
			if method != nil {
				ptypes = append(ptypes, method.Type().(*types.Signature).Recv().Type())
			} else if sig.Recv() != nil {
				ptypes = append(ptypes, sig.Recv().Type())
			} else {
				ptypes = append(ptypes, types.NewInterfaceType(nil, nil))
			}
		}
		for i := 0; i < n; i++ {
			nm := sig.Params().At(i).Name()
			if nm == "" || nm == "_" {
				nm = fmt.Sprintf("arg%d", i)
			}
			names = append(names, nm)
			ptypes = append(ptypes, sig.Params().At(i).Type())
		}
		if len(ct.Params) > 0 {
			// explicit names from the contract head
			k := 0
			for i := range names {
				if names[i] == "self" {
					continue
				}
				if k < len(ct.Params) {
					names[i] = ct.Params[k]
					k++
				}
			}
		}
		if method != nil && method.Pkg() != nil {
			env.pkg = method.Pkg()
		} else if f != nil {
			env.pkg = c.typesPkgOf(f)
		}
	}
	if env.pkg == nil && c.cur != nil && c.cur.fn != nil {
		env.pkg = c.typesPkgOf(c.cur.fn)
	}
	env.specPkgPath = ct.Opts["pkg"]
	for i, nm := range names {
		if i < len(args) {
			env.vars[nm] = specVal{t: c.toTerm(st, args[i]), typ: ptypes[i]}
			if i < len(ptypes) {
				env.vars[fmt.Sprintf("arg%d", i)] = env.vars[nm]
			}
		}
	}
	for _, l := range ct.Lets {
		v, err := c.evalSpec(env, l.Expr)
		if err != nil {
			c.Errorf("CONTRACT-ERROR %s: %v", l.Line, err)
			continue
		}
		env.vars[l.Label] = v
	}
	short := c.ShortName(key)
	for i, r := range ct.Requires {
		t, err := c.evalGoal(env, r.Expr)
		if err != nil {
			c.Errorf("CONTRACT-ERROR %s: %v", r.Line, err)
			continue
		}
		label := r.Label
		if label == "" {
			label = fmt.Sprintf("requires.%d", i+1)
		}
		c.Oblige(st, fr, ins, "pre", label, t, short+" requires "+r.Text)
		// the clause holds from here on: state its consequences too (assume-direction unfolding)
		_, _ = c.evalBool(env, r.Expr)
	}
	if ct.Opts["maypanic"] != "" && ins != nil {
		// `opt maypanic` on an assumed contract: the library code can panic for arguments no
		// contract of ours can exclude (division by zero inside an expression, ...). Such a call
		// has to be made by a function that recovers (entry block defers a closure calling
		// recover()), so that the panic becomes an error instead of killing the process.
		// Decided on the SSA, like `opt recovers`.
		ok := ins.Parent() != nil && defersRecover(ins.Parent())
		if !ok && fr != nil && fr.fn != nil {
			ok = defersRecover(fr.fn)
		}
		c.emit(st, fr, ins, "recovers", "a-call-that-may-panic-is-made-by-a-function-that-recovers", BoolLit(ok),
			short+" may panic; the calling function must defer a recover() before it calls anything", false)
	}
	if ct.Decreases != nil && c.cur != nil && c.cur.contract != nil && c.cur.contract.Decreases != nil && c.sameRecGroup(c.cur.contract, ct, f) {
		var ms []Term
		ok := true
		for _, d := range ct.DecreasesList {
			m, err := c.evalSpec(env, d.Expr)
			if err != nil {
				c.Errorf("CONTRACT-ERROR %s: %v", d.Line, err)
				ok = false
				break
			}
			ms = append(ms, m.t)
		}
		if ok && len(c.cur.entryMeasures) > 0 {
			// lexicographic order on tuples of non-negative integers (missing components count as 0)
			n := len(ms)
			if len(c.cur.entryMeasures) > n {
				n = len(c.cur.entryMeasures)
			}
			get := func(l []Term, i int) Term {
				if i < len(l) {
					return l[i]
				}
				return IntLit(0)
			}
			less := False
			for i := n - 1; i >= 0; i-- {
				a, b := get(ms, i), get(c.cur.entryMeasures, i)
				less = Or(T(SBool, "(< %s %s)", a.S, b.S), And(Eq(a, b), less))
			}
			nonneg := True
			for _, m := range ms {
				nonneg = And(nonneg, T(SBool, "(<= 0 %s)", m.S))
			}
			c.Oblige(st, fr, ins, "decreases", "", And(nonneg, less),
				"recursive call decreases the measure ("+ct.Decreases.Text+") lexicographically (termination)")
		}
	}
	if held := ct.Opts["holds"]; held != "" {
		e, err := ParseSpecExpr(held)
		if err == nil {
			if v, err2 := c.evalSpec(env, e); err2 == nil {
				h := c.Arr(st, famHeld, ArraySort(SInt, SBool))
				c.Oblige(st, fr, ins, "pre", "holds", Select(h, v.t), short+" requires the lock "+held+" to be held")
			}
		}
	}
	// old() of the postconditions is evaluated before the frame is forgotten
	env.preAlloc = c.Arr(st, famAlloc, ArraySort(SInt, SBool))
	env.oldArrays = make(map[string]Term, len(st.arrays))
	for fam, t := range st.arrays {
		env.oldArrays[fam] = t
	}
	// frame
	c.havocForContract(st, fr, env, ct, f)
	// results
	vals := c.freshResults(st, sig, "r")
	env.results = vals
	env.resTypes = nil
	for i := 0; i < sig.Results().Len(); i++ {
		env.resTypes = append(env.resTypes, sig.Results().At(i).Type())
	}
	env.post = true
	env.st = st
	env.calleeRecs = map[string]specVal{}
	// waited(wg) speaks about what the executing goroutine has waited for: what a callee waited
	// for, its caller has waited for too. The set only grows across the call.
	for _, e := range ct.Ensures {
		if mentionsFn(e.Expr, "waited") {
			old := c.Arr(st, "Waited", ArraySort(SInt, SBool))
			c.HavocFam(st, "Waited")
			x := c.Reg.Fresh("q")
			st.Assume(T(SBool, "(forall ((%s Int)) (=> (select %s %s) (select %s %s)))", x, old.S, x, st.arrays["Waited"].S, x))
			break
		}
	}
	for _, e := range ct.Ensures {
		t, err := c.evalBool(env, e.Expr)
		if err != nil {
			c.Errorf("CONTRACT-ERROR %s: %v", e.Line, err)
			continue
		}
		st.Assume(t)
	}
	c.emitReach(st, fr, ins, short, reachPre)
	if ct.Extern || ct.Opts["iface"] != "" {
		c.cur.externUsed[key] = true
	} else {
		c.cur.modularUsed[key] = true
	}
	return vals
}

// havocForContract forgets what the callee may modify.
func (c *Ctx) havocForContract(st *State, fr *Frame, env *specEnv, ct *Contract, f *ssa.Function) {
	if !ct.HasModifies {
		if f != nil && len(f.Blocks) > 0 {
			ws := c.funcSummary(f, 0)
			cp := &writeSummary{top: ws.top, allocs: ws.allocs, fams: map[string]*famWrite{}}
			for k, fw := range ws.fams {
				if k == famHeld && ct.Opts["acquires"] == "" && ct.Opts["releases"] == "" {
					// a function under contract returns with the locks it was called with
					// (its own `lock balanced` obligation)
					continue
				}
				if fw.freshOnly && !fw.all && len(fw.bases) == 0 {
					cp.get(k).freshOnly = true
				} else {
					cp.all(k)
				}
			}
			c.applyHavoc(st, fr, cp, nil)
			return
		}
		// assumed contract without modifies: pure w.r.t. the modelled heap, may allocate
		c.growAlloc(st)
		return
	}
	c.growAlloc(st)
	for _, m := range ct.Modifies {
		if err := c.havocItem(st, env, m); err != nil {
			c.Errorf("CONTRACT-ERROR %s: modifies %q: %v", ct.File, m, err)
		}
	}
}

func (c *Ctx) growAlloc(st *State) {
	old := c.Arr(st, famAlloc, ArraySort(SInt, SBool))
	c.HavocFam(st, famAlloc)
	nw := st.arrays[famAlloc]
	x := c.Reg.Fresh("q")
	st.Assume(T(SBool, "(forall ((%s Int)) (=> (select %s %s) (select %s %s)))", x, old.S, x, nw.S, x))
}

// havocItem handles one modifies item.
func (c *Ctx) havocItem(st *State, env *specEnv, item string) error {
	switch {
	case item == "heap" || item == "everything":
		c.HavocAll(st, true)
		return nil
	case strings.HasPrefix(item, "fam "):
		c.HavocFam(st, strings.TrimSpace(item[4:]))
		return nil
	case strings.HasPrefix(item, "fields "):
		t, err := c.resolveType(env.pkg, strings.TrimSpace(item[7:]))
		if err != nil {
			return err
		}
		sty, ok := t.Underlying().(*types.Struct)
		if !ok {
			return fmt.Errorf("not a struct type")
		}
		for i := 0; i < sty.NumFields(); i++ {
			fam, sort := c.famField(t, i)
			c.Arr(st, fam, sort)
			c.HavocFam(st, fam)
		}
		return nil
	case strings.HasPrefix(item, "elems "):
		t, err := c.resolveType(env.pkg, strings.TrimSpace(item[6:]))
		if err != nil {
			return err
		}
		fam, sort := c.famElem(t)
		c.Arr(st, fam, sort)
		c.HavocFam(st, fam)
		return nil
	case strings.HasPrefix(item, "map "):
		e, err := ParseSpecExpr(strings.TrimSpace(item[4:]))
		if err != nil {
			return err
		}
		v, err := c.evalSpec(env, e)
		if err != nil {
			return err
		}
		mt, ok := v.typ.Underlying().(*types.Map)
		if !ok {
			return fmt.Errorf("not a map")
		}
		c.havocMapObj(st, v.t, mt)
		return nil
	case strings.HasPrefix(item, "slice "):
		e, err := ParseSpecExpr(strings.TrimSpace(item[6:]))
		if err != nil {
			return err
		}
		v, err := c.evalSpec(env, e)
		if err != nil {
			return err
		}
		sl, ok := v.typ.Underlying().(*types.Slice)
		if !ok {
			return fmt.Errorf("not a slice")
		}
		fam, sort := c.famElem(sl.Elem())
		c.SetArr(st, fam, Store(c.Arr(st, fam, sort), T(SInt, "(sl_arr %s)", v.t.S), c.FreshConst(st, "hv", arrayElem(sort))))
		return nil
	case strings.HasPrefix(item, "guarded "):
		e, err := ParseSpecExpr(strings.TrimSpace(item[8:]))
		if err != nil {
			return err
		}
		v, err := c.evalSpec(env, e)
		if err != nil {
			return err
		}
		c.havocGuardedOf(st, v.t, v.typ, "")
		return nil
	case strings.HasPrefix(item, "ghost "):
		name := strings.TrimSpace(item[6:])
		gd := c.Ghosts[name]
		if gd == nil {
			return fmt.Errorf("unknown ghost state %q", name)
		}
		pkg := env.pkg
		if p := c.LemmaPkg["ghost:"+name]; p != nil {
			pkg = p.Types
		}
		fam, sort, _, _, err := c.ghostFam(gd, pkg)
		if err != nil {
			return err
		}
		// the pre-state version must exist before it is forgotten (old() refers to it)
		c.Arr(st, fam, sort)
		c.HavocFam(st, fam)
		return nil
	case strings.HasPrefix(item, "chan "):
		e, err := ParseSpecExpr(strings.TrimSpace(item[5:]))
		if err != nil {
			return err
		}
		v, err := c.evalSpec(env, e)
		if err != nil {
			return err
		}
		for _, fam := range []string{famChLen, famChClosed} {
			s, _ := builtinFamSort(fam)
			c.SetArr(st, fam, Store(c.Arr(st, fam, s), v.t, c.FreshConst(st, "hv", arrayElem(s))))
		}
		return nil
	}
	// a field designator: obj.field
	e, err := ParseSpecExpr(item)
	if err != nil {
		return err
	}
	if e.Op == "un" && e.Text == "*" {
		v, err := c.evalSpec(env, e.Args[0])
		if err != nil {
			return err
		}
		el := deref(v.typ)
		if _, isStruct := el.Underlying().(*types.Struct); isStruct {
			si := c.Reg.StructInfo(el)
			for i := range si.fields {
				fam, sort := c.famField(el, i)
				c.SetArr(st, fam, Store(c.Arr(st, fam, sort), v.t, c.FreshConst(st, "hv", arrayElem(sort))))
			}
			return nil
		}
		fam, sort := c.famCell(el)
		c.SetArr(st, fam, Store(c.Arr(st, fam, sort), v.t, c.FreshConst(st, "hv", arrayElem(sort))))
		return nil
	}
	if e.Op != "sel" {
		return fmt.Errorf("unsupported modifies item")
	}
	obj, err := c.evalSpec(env, e.Args[0])
	if err != nil {
		return err
	}
	stT := deref(obj.typ)
	sty, ok := stT.Underlying().(*types.Struct)
	if !ok {
		return fmt.Errorf("not a struct")
	}
	for i := 0; i < sty.NumFields(); i++ {
		if sty.Field(i).Name() == e.Text {
			fam, sort := c.famField(stT, i)
			c.SetArr(st, fam, Store(c.Arr(st, fam, sort), obj.t, c.FreshConst(st, "hv", arrayElem(sort))))
			return nil
		}
	}
	return fmt.Errorf("no field %s", e.Text)
}

// ---------------------------------------------------------------------------
// Builtins
// ---------------------------------------------------------------------------

func (c *Ctx) doBuiltin(st *State, fr *Frame, ins ssa.Instruction, b *ssa.Builtin, call *ssa.CallCommon, res ssa.Value, args []Value) []cont {
	set := func(v Value) []cont {
		if res != nil {
			fr.regs[res] = v
		}
		return one(st, fr)
	}
	switch b.Name() {
	case "len":
		a := c.toTerm(st, args[0])
		switch call.Args[0].Type().Underlying().(type) {
		case *types.Slice:
			return set(T(SInt, "(sl_len %s)", a.S))
		case *types.Map:
			ml := c.mapLen(st, a, false)
			if len(st.qbinders) == 0 {
				// a map of length zero has no keys
				mt := call.Args[0].Type().Underlying().(*types.Map)
				dfam, dsort := c.famMapDom(mt)
				q := c.Reg.Fresh("q")
				st.Assume(T(SBool, "(=> (= %s 0) (forall ((%s %s)) (not (select (select %s %s) %s))))", ml.S, q, c.Reg.SortOf(mt.Key()), c.Arr(st, dfam, dsort).S, a.S, q))
			}
			return set(ml)
		case *types.Basic:
			return set(T(SInt, "(str.len %s)", a.S))
		case *types.Chan:
			l := Select(c.Arr(st, famChLen, ArraySort(SInt, SInt)), a)
			return set(l)
		case *types.Pointer, *types.Array:
			if arr, ok := deref(call.Args[0].Type()).Underlying().(*types.Array); ok {
				return set(IntLit(arr.Len()))
			}
		}
	case "cap":
		a := c.toTerm(st, args[0])
		switch call.Args[0].Type().Underlying().(type) {
		case *types.Slice:
			return set(T(SInt, "(sl_cap %s)", a.S))
		case *types.Chan:
			return set(Select(c.Arr(st, famChCap, ArraySort(SInt, SInt)), a))
		}
	case "append":
		return set(c.doAppend(st, fr, ins, call, args))
	case "delete":
		m := c.toTerm(st, args[0])
		k := c.toTerm(st, args[1])
		mt := call.Args[0].Type().Underlying().(*types.Map)
		c.checkMapAccess(st, fr, ins, call.Args[0], m, true)
		c.mapDelete(st, m, k, mt)
		return set(Tuple{})
	case "close":
		ch := c.toTerm(st, args[0])
		if c.neverClosed(st, ch) {
			c.emit(st, fr, ins, "access", "close never-closed", False, "close of a channel that is declared never closed", false)
		}
		c.closeUnderLock(st, fr, ins, ch)
		cl := c.Arr(st, famChClosed, ArraySort(SInt, SBool))
		c.Oblige(st, fr, ins, "nopanic", "nil-chan", Not(Eq(ch, IntLit(0))), "close of nil channel")
		c.Oblige(st, fr, ins, "nopanic", "closed", Not(Select(cl, ch)), "close of closed channel")
		c.SetArr(st, famChClosed, Store(cl, ch, True))
		return set(Tuple{})
	case "copy":
		dst := c.toTerm(st, args[0])
		sl := call.Args[0].Type().Underlying().(*types.Slice)
		fam, sort := c.famElem(sl.Elem())
		c.SetArr(st, fam, Store(c.Arr(st, fam, sort), T(SInt, "(sl_arr %s)", dst.S), c.FreshConst(st, "hv", arrayElem(sort))))
		n := c.FreshConst(st, "copied", SInt)
		st.Assume(T(SBool, "(and (>= %s 0) (<= %s (sl_len %s)))", n.S, n.S, dst.S))
		return set(n)
	case "ssa:wrapnilchk":
		p := c.toTerm(st, args[0])
		c.Oblige(st, fr, ins, "nopanic", "nil-receiver", Not(Eq(p, IntLit(0))), "value method called through a nil pointer")
		return set(p)
	case "print", "println":
		return set(Tuple{})
	case "recover":
		return set(Term{"nil_any", SAny})
	case "min", "max":
		a := c.toTerm(st, args[0])
		for _, x := range args[1:] {
			bx := c.toTerm(st, x)
			if a.Sort == SInt {
				if b.Name() == "min" {
					a = Ite(T(SBool, "(<= %s %s)", a.S, bx.S), a, bx)
				} else {
					a = Ite(T(SBool, "(>= %s %s)", a.S, bx.S), a, bx)
				}
			} else {
				a = c.FreshConst(st, "minmax", a.Sort)
			}
		}
		return set(a)
	}
	c.cur.aborted = "unsupported builtin " + b.Name()
	return nil
}

func (c *Ctx) doAppend(st *State, fr *Frame, ins ssa.Instruction, call *ssa.CallCommon, args []Value) Value {
	s := c.toTerm(st, args[0])
	sl, ok := call.Args[0].Type().Underlying().(*types.Slice)
	if !ok {
		return c.FreshConst(st, "append", SSlice)
	}
	fam, sort := c.famElem(sl.Elem())
	inner := arrayElem(sort)
	// the appended elements: either a slice built from a varargs array, or a string / slice
	t, isSlice := call.Args[1].Type().Underlying().(*types.Slice)
	if !isSlice {
		// append([]byte, string...)
		_ = t
		r := c.FreshConst(st, "append", SSlice)
		c.AssumeWF(st, r, call.Args[0].Type())
		st.Assume(T(SBool, "(>= (sl_len %s) (sl_len %s))", r.S, s.S))
		return r
	}
	add := c.toTerm(st, args[1])
	n := T(SInt, "(sl_len %s)", add.S)
	arr := c.Arr(st, fam, sort)
	// in place iff the capacity suffices
	inplace := c.Name(st, "inplace", T(SBool, "(<= (+ (sl_len %s) %s) (sl_cap %s))", s.S, n.S, s.S))
	newArr := c.NewRef(st, "arr")
	newCap := c.FreshConst(st, "cap", SInt)
	st.Assume(T(SBool, "(>= %s (+ (sl_len %s) %s))", newCap.S, s.S, n.S))
	// contents of the result's backing array
	content := c.FreshConst(st, "elems", inner)
	resArr := c.Name(st, "rarr", Ite(inplace, T(SInt, "(sl_arr %s)", s.S), newArr))
	resOff := c.Name(st, "roff", Ite(inplace, T(SInt, "(sl_off %s)", s.S), IntLit(0)))
	q := c.Reg.Fresh("q")
	// old elements are preserved at their (possibly relocated) positions
	st.Assume(T(SBool, "(forall ((%s Int)) (=> (and (<= 0 %s) (< %s (sl_len %s))) (= (select %s (+ %s %s)) (select (select %s (sl_arr %s)) (sidx %s %s)))))",
		q, q, q, s.S, content.S, resOff.S, q, arr.S, s.S, s.S, q))
	// appended elements
	st.Assume(T(SBool, "(forall ((%s Int)) (=> (and (<= 0 %s) (< %s %s)) (= (select %s (+ %s (sl_len %s) %s)) (select (select %s (sl_arr %s)) (sidx %s %s)))))",
		q, q, q, n.S, content.S, resOff.S, s.S, q, arr.S, add.S, add.S, q))
	// in place: every other position of the shared array is untouched
	st.Assume(Implies(inplace, T(SBool, "(forall ((%s Int)) (=> (or (< %s (+ (sl_off %s) (sl_len %s))) (>= %s (+ (sl_off %s) (sl_len %s) %s))) (= (select %s %s) (select (select %s (sl_arr %s)) %s))))",
		q, q, s.S, s.S, q, s.S, s.S, n.S, content.S, q, arr.S, s.S, q)))
	c.SetArr(st, fam, Store(arr, resArr, content))
	r := T(SSlice, "(mk_slice %s %s (+ (sl_len %s) %s) %s)", resArr.S, resOff.S, s.S, n.S, Ite(inplace, T(SInt, "(sl_cap %s)", s.S), newCap).S)
	res := c.Name(st, "append", r)
	// append(s, x1, ..., xk) with the elements written out: state where each of them ends up
	// (ground instances of the quantified fact above; arithmetic in triggers matches badly)
	if sx, ok := call.Args[1].(*ssa.Slice); ok && sx.Low == nil && sx.High == nil {
		if pt, ok := sx.X.Type().Underlying().(*types.Pointer); ok {
			if at, ok := pt.Elem().Underlying().(*types.Array); ok && at.Len() <= 8 {
				st.Assume(T(SBool, "(= %s %d)", n.S, at.Len()))
				for q := int64(0); q < at.Len(); q++ {
					st.Assume(T(SBool, "(= (select %s (sidx %s (+ (sl_len %s) %d))) (select (select %s (sl_arr %s)) (sidx %s %d)))", content.S, res.S, s.S, q, arr.S, add.S, add.S, q))
				}
			}
		}
	}
	return res
}

// ---------------------------------------------------------------------------
// Goroutines, channels
// ---------------------------------------------------------------------------

func (c *Ctx) doGo(st *State, fr *Frame, x *ssa.Go) []cont {
	call := &x.Call
	var target *ssa.Function
	var bindings []Value
	if !call.IsInvoke() {
		if _, isB := call.Value.(*ssa.Builtin); !isB {
			if ft, ok := c.reg(fr, call.Value, st).(Term); ok {
				if cl, known := st.closures[ft.S]; known {
					target = cl.Fn
					bindings = cl.Bindings
				}
			}
		}
	}
	// registration: a spawned function that requires a wait-group token must be given one
	if target != nil {
		key := c.FuncKey(target)
		if ct := c.Contracts[key]; ct != nil {
			if tok := ct.Opts["token"]; tok != "" {
				env := &specEnv{c: c, st: st, vars: map[string]specVal{}, pkg: c.typesPkgOf(target), fn: target}
				for i, p := range target.Params {
					if i < len(call.Args) {
						env.vars[p.Name()] = specVal{t: c.term(fr, call.Args[i], st), typ: p.Type()}
					}
				}
				for i, fv := range target.FreeVars {
					if i < len(bindings) {
						bt := c.toTerm(st, bindings[i])
						env.vars["&"+fv.Name()] = specVal{t: bt, typ: fv.Type()}
						if _, isPtr := fv.Type().Underlying().(*types.Pointer); isPtr {
							env.vars[fv.Name()] = specVal{t: c.LoadPtr(st, bt, fv.Type(), false), typ: deref(fv.Type())}
						} else {
							env.vars[fv.Name()] = specVal{t: bt, typ: fv.Type()}
						}
					}
				}
				e, err := ParseSpecExpr(tok)
				if err != nil {
					c.Errorf("CONTRACT-ERROR %s: token: %v", ct.File, err)
				} else if v, err := c.evalSpec(env, e); err != nil {
					c.Errorf("CONTRACT-ERROR %s: token: %v", ct.File, err)
				} else {
					wg := c.Arr(st, famWg, ArraySort(SInt, SInt))
					have := Select(wg, v.t)
					c.Oblige(st, fr, x, "token", "registered", T(SBool, "(>= %s 1)", have.S), "goroutine "+c.ShortName(key)+" is registered with its wait group before it is started")
					c.SetArr(st, famWg, Store(wg, v.t, T(SInt, "(- %s 1)", have.S)))
				}
			}
		}
		// cells captured by the goroutine are shared from now on
		for _, b := range bindings {
			if t, ok := b.(Term); ok {
				st.shared[t.S] = true
			}
		}
	} else if c.cur.contract != nil && c.cur.contract.Opts["go-strict"] != "" {
		c.emit(st, fr, x, "token", "unknown-target", False, "go statement with unknown target", false)
	}
	return one(st, fr)
}

func (c *Ctx) lockHeldAny(st *State) Term {
	// is any annotated lock held? tracked syntactically
	if len(st.heldLocks) > 0 {
		return True
	}
	return False
}

// chanInvFor finds the declared message invariant of the channel held in term ch (when the
// channel was loaded from an annotated struct field).
func (c *Ctx) chanInvFor(st *State, ch Term) (*ChanInv, ownerInfo, bool) {
	o, ok := st.owners[ch.S]
	if !ok {
		if a, ok2 := st.aliases[ch.S]; ok2 {
			o, ok = st.owners[a]
		}
	}
	if !ok {
		return nil, o, false
	}
	ci := c.ChanInvs[c.Reg.TypeKey(o.Struct)+"|"+o.Field]
	return ci, o, ci != nil
}

func (c *Ctx) chanInvTerm(st *State, ci *ChanInv, o ownerInfo, msg Term, elem types.Type, goal bool) (Term, error) {
	env := &specEnv{c: c, st: st, vars: map[string]specVal{}, pkg: ci.Pkg}
	env.vars["msg"] = specVal{msg, elem}
	env.vars["self"] = specVal{o.Obj, types.NewPointer(o.Struct)}
	if goal {
		return c.evalGoal(env, ci.Clause.Expr)
	}
	return c.evalBool(env, ci.Clause.Expr)
}

// soleReceiver reports whether ch is the channel of a field annotated received_by(g) and the
// function under verification runs on goroutine g. Others may only send on such a channel, so
// what this goroutine knows about its fill level are lower bounds: before each of its own
// operations the level is raised by an unknown amount. A receive elsewhere is flagged.
func (c *Ctx) soleReceiver(st *State, fr *Frame, ins ssa.Instruction, ch Term, recv bool) bool {
	o, ok := st.owners[ch.S]
	if !ok {
		if a, ok2 := st.aliases[ch.S]; ok2 {
			o, ok = st.owners[a]
		}
	}
	if !ok {
		return false
	}
	fm := c.FieldAnnos[c.Reg.TypeKey(o.Struct)+"|"+o.Field]
	if fm == nil || fm.ReceivedBy == "" {
		return false
	}
	if c.cur == nil || c.cur.goroutine != fm.ReceivedBy {
		if recv {
			c.emit(st, fr, ins, "access", o.Field+" receiver", False, fmt.Sprintf("receive from %s.%s outside its receiving goroutine %s", typeName(o.Struct), o.Field, fm.ReceivedBy), false)
		}
		return false
	}
	ln := c.Arr(st, famChLen, ArraySort(SInt, SInt))
	nl := c.FreshConst(st, "chlen", SInt)
	st.Assume(T(SBool, "(>= %s %s)", nl.S, Select(ln, ch).S))
	c.SetArr(st, famChLen, Store(ln, ch, nl))
	return true
}

// neverClosed: is ch the channel of a field annotated `neverclosed`? Then it is open.
func (c *Ctx) neverClosed(st *State, ch Term) bool {
	o, ok := st.owners[ch.S]
	if !ok {
		if a, ok2 := st.aliases[ch.S]; ok2 {
			o, ok = st.owners[a]
		}
	}
	if !ok {
		return false
	}
	fm := c.FieldAnnos[c.Reg.TypeKey(o.Struct)+"|"+o.Field]
	if fm == nil || !fm.NeverClosed {
		return false
	}
	st.Assume(Not(Select(c.Arr(st, famChClosed, ArraySort(SInt, SBool)), ch)))
	return true
}

func (c *Ctx) doSend(st *State, fr *Frame, x *ssa.Send) []cont {
	ch := c.term(fr, x.Chan, st)
	c.soleReceiver(st, fr, x, ch, false)
	st.lastSent[ch.S] = c.term(fr, x.X, st)
	c.SetArr(st, "SentNow", Store(c.Arr(st, "SentNow", ArraySort(SInt, SBool)), ch, True))
	if ci, o, ok := c.chanInvFor(st, ch); ok {
		if t, err := c.chanInvTerm(st, ci, o, st.lastSent[ch.S], x.X.Type(), true); err == nil {
			c.Oblige(st, fr, x, "chaninv", o.Field, t, "message sent on "+o.Field+" satisfies the channel's message invariant: "+ci.Clause.Text)
		} else {
			c.Errorf("CONTRACT-ERROR %s: %v", ci.Clause.Line, err)
		}
	}
	c.sendEffects(st, fr, x, ch, true)
	return one(st, fr)
}

// sendEffects: obligations and state change of a send that is known to proceed.
func (c *Ctx) sendEffects(st *State, fr *Frame, ins ssa.Instruction, ch Term, blocking bool) {
	c.neverClosed(st, ch)
	cl := c.Arr(st, famChClosed, ArraySort(SInt, SBool))
	ln := c.Arr(st, famChLen, ArraySort(SInt, SInt))
	cp := c.Arr(st, famChCap, ArraySort(SInt, SInt))
	if blocking {
		c.Oblige(st, fr, ins, "nonblocking", "send-nil-chan", Not(Eq(ch, IntLit(0))), "blocking send on a nil channel blocks forever")
	}
	c.Oblige(st, fr, ins, "nopanic", "send-closed", Not(Select(cl, ch)), "send on closed channel")
	if blocking {
		// a blocking send inside a critical section must have room
		h := c.Arr(st, famHeld, ArraySort(SInt, SBool))
		noLock := Eq(h, ConstArray(ArraySort(SInt, SBool), False))
		c.Oblige(st, fr, ins, "nonblocking", "send-under-lock", Or(noLock, T(SBool, "(< %s %s)", Select(ln, ch).S, Select(cp, ch).S)), "send while holding a lock cannot block (channel has room)")
	}
	c.SetArr(st, famChLen, Store(ln, ch, T(SInt, "(+ %s 1)", Select(ln, ch).S)))
}

// semaphorePermit: a receive from the channel declared `opt semaphore <chan>` - in a select arm as
// much as a blocking one - takes a slot out. A goroutine that put none in (holds no permit) would take
// the slot of another holder: the bound "at most cap(sem) holders" is gone.
func (c *Ctx) semaphorePermit(st *State, fr *Frame, ins ssa.Instruction, ch Term) {
	if c.cur == nil || c.cur.contract == nil || c.cur.contract.Opts["semaphore"] == "" {
		return
	}
	if _, isCtx := st.ctxDoneChans[ch.S]; isCtx {
		return // the Done() channel of a context is not the semaphore
	}
	e, err := ParseSpecExpr(c.cur.contract.Opts["semaphore"])
	if err != nil {
		return
	}
	env := c.envForFrame(st, fr)
	savedErrs := len(c.Errors)
	if sv, err := c.evalSpec(env, e); err == nil {
		sn := Select(c.Arr(st, "SentNow", ArraySort(SInt, SBool)), ch)
		goal := sn
		if sv.t.S != ch.S {
			goal = Or(Not(Eq(ch, sv.t)), sn)
		}
		c.Oblige(st, fr, ins, "permit", "recv-takes-only-its-own-slot", goal, "a receive from the semaphore is made only by a goroutine that acquired a slot (sent on it) before")
	}
	c.Errors = c.Errors[:savedErrs]
}

func (c *Ctx) doRecv(st *State, fr *Frame, x *ssa.UnOp) []cont {
	ch := c.term(fr, x.X, st)
	el := x.X.Type().Underlying().(*types.Chan).Elem()
	c.soleReceiver(st, fr, x, ch, true)
	// a counting semaphore (declared `opt semaphore <chan>`): a blocking receive gives a permit back
	// and waits forever if this goroutine holds none and nobody else releases
	if c.cur != nil && c.cur.contract != nil && c.cur.contract.Opts["semaphore"] != "" {
		if e, err := ParseSpecExpr(c.cur.contract.Opts["semaphore"]); err == nil {
			top := fr
			env := c.envForFrame(st, top)
			savedErrs := len(c.Errors)
			if sv, err := c.evalSpec(env, e); err == nil {
				sn := Select(c.Arr(st, "SentNow", ArraySort(SInt, SBool)), ch)
				goal := sn
				if sv.t.S != ch.S {
					goal = Or(Not(Eq(ch, sv.t)), sn)
				}
				c.Oblige(st, fr, x, "nonblocking", "recv-without-permit", goal, "blocking receive on the semaphore without holding a permit (waits forever when no other goroutine releases)")
			}
			c.Errors = c.Errors[:savedErrs]
		}
	}
	c.semaphorePermit(st, fr, x, ch)
	v, ok := c.recvEffects(st, ch, el)
	c.assumeChanInv(st, ch, v, ok, el)
	if x.CommaOk {
		fr.regs[x] = Tuple{v, ok}
	} else {
		fr.regs[x] = v
	}
	return one(st, fr)
}

func (c *Ctx) recvEffects(st *State, ch Term, el types.Type) (Term, Term) {
	v := c.FreshConst(st, "recv", c.Reg.SortOf(el))
	c.AssumeWF(st, v, el)
	ok := c.FreshConst(st, "recv.ok", SBool)
	if _, isCtx := st.ctxDoneChans[ch.S]; isCtx {
		// Done() channels never carry elements: a receive only completes once they are closed
		st.Assume(Not(ok))
		return v, ok
	}
	c.neverClosed(st, ch)
	cl := c.Arr(st, famChClosed, ArraySort(SInt, SBool))
	ln := c.Arr(st, famChLen, ArraySort(SInt, SInt))
	st.Assume(Implies(Not(ok), And(Select(cl, ch), Eq(v, c.Reg.Zero(el)))))
	// a successful receive takes one element out (when the length is tracked)
	nl := c.FreshConst(st, "chlen", SInt)
	st.Assume(T(SBool, "(>= %s 0)", nl.S))
	st.Assume(Implies(ok, T(SBool, "(or (= %s (- %s 1)) (= %s 0))", nl.S, Select(ln, ch).S, Select(ln, ch).S)))
	c.SetArr(st, famChLen, Store(ln, ch, nl))
	return v, ok
}

func (c *Ctx) doSelect(st *State, fr *Frame, x *ssa.Select) []cont {
	var conts []cont
	n := len(x.States)
	mk := func(s *State, f *Frame, idx int, recvOk Term, vals map[int]Term) {
		tup := Tuple{IntLit(int64(idx)), recvOk}
		for i, ss := range x.States {
			if ss.Dir == types.RecvOnly {
				if v, ok := vals[i]; ok {
					tup = append(tup, v)
				} else {
					tup = append(tup, c.Reg.Zero(ss.Chan.Type().Underlying().(*types.Chan).Elem()))
				}
			}
		}
		f.regs[x] = tup
		s.trace = s.trace.push(fmt.Sprintf("select arm %d", idx))
		conts = append(conts, cont{s, f})
	}
	total := n
	if !x.Blocking {
		total++
	}
	for i := 0; i < total; i++ {
		if !c.budget() {
			return conts
		}
		s, f := st, fr
		if i < total-1 {
			s, f = st.Clone(), fr.clone()
		}
		if i == n {
			// default arm: no case was ready. For a channel whose only receiver is this goroutine
			// that is a fact about its (lower-bounded) fill level: it is empty.
			for _, ss := range x.States {
				if ss.Dir == types.SendOnly {
					// a send case that was not ready: the channel had no room at this moment (a nil
					// channel is never ready either)
					ch := c.term(f, ss.Chan, s)
					ln := Select(c.Arr(s, famChLen, ArraySort(SInt, SInt)), ch)
					cp := Select(c.Arr(s, famChCap, ArraySort(SInt, SInt)), ch)
					s.Assume(Or(Eq(ch, IntLit(0)), T(SBool, "(>= %s %s)", ln.S, cp.S)))
					continue
				}
				if ss.Dir != types.RecvOnly {
					continue
				}
				ch := c.term(f, ss.Chan, s)
				if c.soleReceiver(s, f, x, ch, false) {
					s.Assume(Eq(Select(c.Arr(s, famChLen, ArraySort(SInt, SInt)), ch), IntLit(0)))
				}
			}
			mk(s, f, -1, False, nil)
			continue
		}
		ss := x.States[i]
		ch := c.term(f, ss.Chan, s)
		c.soleReceiver(s, f, x, ch, ss.Dir == types.RecvOnly)
		if ss.Dir == types.SendOnly {
			s.lastSent[ch.S] = c.term(f, ss.Send, s)
			c.SetArr(s, "SentNow", Store(c.Arr(s, "SentNow", ArraySort(SInt, SBool)), ch, True))
			if ci, o, ok := c.chanInvFor(s, ch); ok {
				if t, err := c.chanInvTerm(s, ci, o, s.lastSent[ch.S], ss.Send.Type(), true); err == nil {
					c.Oblige(s, f, x, "chaninv", o.Field, t, "message sent on "+o.Field+" satisfies the channel's message invariant: "+ci.Clause.Text)
				}
			}
			c.sendEffects(s, f, x, ch, false)
			mk(s, f, i, False, nil)
		} else {
			el := ss.Chan.Type().Underlying().(*types.Chan).Elem()
			c.semaphorePermit(s, f, x, ch)
			v, ok := c.recvEffects(s, ch, el)
			c.assumeChanInv(s, ch, v, ok, el)
			if ci, isCtx := s.ctxDoneChans[ch.S]; isCtx {
				// receiving from ctx.Done() means the context is done
				cd := c.Arr(s, famCtxDone, ArraySort(SInt, SBool))
				s.Assume(Select(cd, ci))
			}
			mk(s, f, i, ok, map[int]Term{i: v})
		}
	}
	return conts
}

// ---------------------------------------------------------------------------
// Lock discipline
// ---------------------------------------------------------------------------

func (c *Ctx) fieldModeOf(l *Loc) *fieldMode {
	if l == nil || l.Kind != LocField {
		return nil
	}
	si := c.Reg.StructInfo(l.Struct)
	k := c.Reg.TypeKey(l.Struct) + "|" + si.st.Field(l.Field).Name()
	return c.FieldAnnos[k]
}

// checkAccess generates the lock-discipline obligation of one load/store.
func (c *Ctx) checkAccess(st *State, fr *Frame, ins ssa.Instruction, pv Value, write bool) {
	l, ok := pv.(*Loc)
	if !ok {
		return
	}
	if l.Kind == LocElem {
		c.checkSharedAccess(st, fr, ins, l.Base, true, write)
	}
	fm := c.fieldModeOf(l)
	if fm == nil {
		return
	}
	si := c.Reg.StructInfo(l.Struct)
	fname := si.st.Field(l.Field).Name()
	switch fm.Mode {
	case "guarded_by":
		if !write && fm.Owned != "" && c.cur.goroutine == fm.Owned {
			return // the single writer may read its own fields without the lock
		}
		if c.cur.contract != nil && c.cur.contract.Opts["init"] != "" {
			return
		}
		if c.isFreshObject(st, l.Base) {
			return // object not yet published
		}
		lockT := c.lockOf(st, l.Struct, l.Base, fm.Arg)
		h := c.Arr(st, famHeld, ArraySort(SInt, SBool))
		what := "read"
		if write {
			what = "write"
		}
		c.Oblige(st, fr, ins, "access", fname, Select(h, lockT), fmt.Sprintf("%s of %s.%s requires %s to be held", what, typeName(l.Struct), fname, fm.Arg))
		if write && fm.Owned != "" && c.cur.goroutine != fm.Owned && c.cur.goroutine != "" {
			c.emit(st, fr, ins, "access", fname+" owner", False, fmt.Sprintf("write of %s.%s outside its owner goroutine %s", typeName(l.Struct), fname, fm.Owned), false)
		}
	case "immutable":
		if write && !c.isFreshObject(st, l.Base) && !(c.cur.contract != nil && c.cur.contract.Opts["init"] != "") {
			c.emit(st, fr, ins, "access", fname+" immutable", False, fmt.Sprintf("write of immutable field %s.%s after publication", typeName(l.Struct), fname), false)
		}
	}
}

// isFreshObject: was the object allocated on this path (not yet shared)?
func (c *Ctx) isFreshObject(st *State, base Term) bool {
	return st.freshObjs[base.S]
}

func (c *Ctx) lockOf(st *State, stT types.Type, obj Term, lockField string) Term {
	sty := stT.Underlying().(*types.Struct)
	for i := 0; i < sty.NumFields(); i++ {
		if sty.Field(i).Name() == lockField {
			l := &Loc{Kind: LocField, Base: obj, Struct: stT, Field: i, Type: sty.Field(i).Type(), Root: sty.Field(i).Type()}
			if _, isPtr := sty.Field(i).Type().Underlying().(*types.Pointer); isPtr {
				v := c.LoadLoc(st, l, false)
				st.owners[v.S] = ownerInfo{Struct: stT, Obj: obj, Field: lockField}
				return v
			}
			t := c.LowerLoc(st, l)
			st.owners[t.S] = ownerInfo{Struct: stT, Obj: obj, Field: lockField}
			return t
		}
	}
	panic("no lock field " + lockField)
}

// checkSharedAccess: accesses to the contents of local data declared `shared ... guarded_by l`.
func (c *Ctx) checkSharedAccess(st *State, fr *Frame, ins ssa.Instruction, ref Term, slice bool, write bool) {
	if c.cur == nil || len(c.cur.shared) == 0 {
		return
	}
	what := "read"
	if write {
		what = "write"
	}
	for _, sr := range c.cur.shared {
		if sr.slice != slice {
			continue
		}
		h := c.Arr(st, famHeld, ArraySort(SInt, SBool))
		goal := Select(h, sr.lock)
		if ref.S != sr.ref.S {
			goal = Or(T(SBool, "(not (= %s %s))", ref.S, sr.ref.S), goal)
		}
		c.Oblige(st, fr, ins, "access", "shared "+sr.name, goal, fmt.Sprintf("%s of the contents of %s (shared between goroutines) requires its lock to be held", what, sr.name))
	}
}

func (c *Ctx) checkMapAccess(st *State, fr *Frame, ins ssa.Instruction, mv ssa.Value, m Term, write bool) {
	c.checkSharedAccess(st, fr, ins, m, false, write)
	// map contents of a guarded deep field: find the load the map came from
	un, ok := mv.(*ssa.UnOp)
	if !ok {
		return
	}
	fa, ok := un.X.(*ssa.FieldAddr)
	if !ok {
		return
	}
	stT := deref(fa.X.Type())
	si := c.Reg.StructInfo(stT)
	fm := c.FieldAnnos[c.Reg.TypeKey(stT)+"|"+si.st.Field(fa.Field).Name()]
	if fm != nil && fm.Frozen {
		if write {
			if base, ok := fr.regs[fa.X].(Term); ok && !c.isFreshObject(st, base) {
				pub := Select(c.Arr(st, "Published", ArraySort(SInt, SBool)), base)
				c.Oblige(st, fr, ins, "access", si.st.Field(fa.Field).Name()+" frozen", Not(pub), fmt.Sprintf("the contents of %s.%s are written only before the object is shared", typeName(stT), si.st.Field(fa.Field).Name()))
			}
		}
		return
	}
	if fm != nil && fm.Contents != "" {
		if c.cur.contract != nil && c.cur.contract.Opts["init"] != "" {
			return
		}
		if c.cur.contract != nil && !write && c.cur.contract.Opts["reads-published"] != "" && strings.Contains(" "+c.cur.contract.Opts["reads-published"]+" ", " "+si.st.Field(fa.Field).Name()+" ") {
			return // declared: the contents are no longer written when this function runs
		}
		base, ok := fr.regs[fa.X].(Term)
		if !ok || c.isFreshObject(st, base) {
			return
		}
		lockT := c.lockOf(st, stT, base, fm.Contents)
		h := c.Arr(st, famHeld, ArraySort(SInt, SBool))
		what := "read"
		if write {
			what = "write"
		}
		c.Oblige(st, fr, ins, "access", si.st.Field(fa.Field).Name()+" contents", Select(h, lockT), fmt.Sprintf("%s of the contents of %s.%s requires %s to be held", what, typeName(stT), si.st.Field(fa.Field).Name(), fm.Contents))
		return
	}
	if fm == nil || fm.Mode != "guarded_by" || !fm.Deep {
		return
	}
	if c.cur.contract != nil && c.cur.contract.Opts["init"] != "" {
		return
	}
	base, ok := fr.regs[fa.X].(Term)
	if !ok || c.isFreshObject(st, base) {
		return
	}
	lockT := c.lockOf(st, stT, base, fm.Arg)
	h := c.Arr(st, famHeld, ArraySort(SInt, SBool))
	what := "read"
	if write {
		what = "write"
	}
	c.Oblige(st, fr, ins, "access", si.st.Field(fa.Field).Name()+" contents", Select(h, lockT), fmt.Sprintf("%s of the contents of %s.%s requires %s to be held", what, typeName(stT), si.st.Field(fa.Field).Name(), fm.Arg))
}

// acquireLockState marks a lock as held (entry assumption or Lock()).
func (c *Ctx) acquireLockState(st *State, lock Term) {
	h := c.Arr(st, famHeld, ArraySort(SInt, SBool))
	c.SetArr(st, famHeld, Store(h, lock, True))
	st.heldLocks = append(append([]string(nil), st.heldLocks...), lock.S)
}

func (c *Ctx) releaseLockState(st *State, lock Term) {
	h := c.Arr(st, famHeld, ArraySort(SInt, SBool))
	c.SetArr(st, famHeld, Store(h, lock, False))
	var nl []string
	removed := false
	for _, l := range st.heldLocks {
		if l == lock.S && !removed {
			removed = true
			continue
		}
		nl = append(nl, l)
	}
	if !removed && len(st.heldLocks) > 0 {
		// aliasing not resolved syntactically: drop the most recent one
		nl = nl[:len(nl)-1]
	}
	st.heldLocks = nl
}

// havocGuardedOf forgets the guarded fields of one object (other goroutines may
// have changed them while the lock was not held).
func (c *Ctx) havocGuardedOf(st *State, obj Term, ptrT types.Type, lockField string) {
	stT := deref(ptrT)
	sty, ok := stT.Underlying().(*types.Struct)
	if !ok {
		return
	}
	for i := 0; i < sty.NumFields(); i++ {
		fm := c.FieldAnnos[c.Reg.TypeKey(stT)+"|"+sty.Field(i).Name()]
		if fm != nil && fm.Contents != "" && (lockField == "" || fm.Contents == lockField) {
			// the contents of every map of this type (the field's map and the maps nested in it)
			// may have been changed by the other goroutines that use the lock
			if mt, ok := sty.Field(i).Type().Underlying().(*types.Map); ok {
				dfam, _ := c.famMapDom(mt)
				vfam, _ := c.famMapVal(mt)
				c.HavocFam(st, dfam)
				c.HavocFam(st, vfam)
				c.HavocFam(st, famMapLen)
			}
		}
		if fm == nil || fm.Mode != "guarded_by" {
			continue
		}
		if lockField != "" && fm.Arg != lockField {
			continue
		}
		if fm.Owned != "" && c.cur != nil && c.cur.goroutine == fm.Owned {
			continue // only this goroutine writes it
		}
		fam, sort := c.famField(stT, i)
		nv := c.FreshConst(st, "hv."+sty.Field(i).Name(), arrayElem(sort))
		c.AssumeWF(st, nv, sty.Field(i).Type())
		c.SetArr(st, fam, Store(c.Arr(st, fam, sort), obj, nv))
		if fm.Deep {
			if mt, ok := sty.Field(i).Type().Underlying().(*types.Map); ok {
				c.havocMapObj(st, nv, mt)
				// the map object itself is stable only if the field is; keep identity when the field is immutable elsewhere
			}
		}
	}
	// channels of the object are used by other goroutines too: their fill level and closed
	// flag are unknown whenever the lock is (re)acquired or released
	for i := 0; i < sty.NumFields(); i++ {
		if _, isChan := sty.Field(i).Type().Underlying().(*types.Chan); !isChan {
			continue
		}
		l := &Loc{Kind: LocField, Base: obj, Struct: stT, Field: i, Type: sty.Field(i).Type(), Root: sty.Field(i).Type()}
		ch := c.LoadLoc(st, l, false)
		ln := c.Arr(st, famChLen, ArraySort(SInt, SInt))
		nl := c.FreshConst(st, "chlen", SInt)
		st.Assume(T(SBool, "(>= %s 0)", nl.S))
		c.SetArr(st, famChLen, Store(ln, ch, nl))
		cl := c.Arr(st, famChClosed, ArraySort(SInt, SBool))
		nc := c.FreshConst(st, "chclosed", SBool)
		// a closed channel stays closed
		st.Assume(Implies(Select(cl, ch), nc))
		c.SetArr(st, famChClosed, Store(cl, ch, nc))
	}
}

func (c *Ctx) assumeGlobals(st *State, fn *ssa.Function) {
	// package-level variables: initial values are given by the package initialiser; they
	// are materialised lazily by init-symbolic execution (see globals.go)
}

// sameRecGroup: may a call from the function under verification to f be part of a recursion?
func (c *Ctx) sameRecGroup(cur, callee *Contract, f *ssa.Function) bool {
	if f != nil && c.cur.fn == f {
		return true
	}
	g1, g2 := cur.Opts["recgroup"], callee.Opts["recgroup"]
	return g1 != "" && g1 == g2
}

// assumeChanInv: a value really received (ok) from an annotated channel satisfies its message invariant.
func (c *Ctx) assumeChanInv(st *State, ch Term, v Term, ok Term, el types.Type) {
	if ci, o, found := c.chanInvFor(st, ch); found {
		if t, err := c.chanInvTerm(st, ci, o, v, el, false); err == nil {
			st.Assume(Implies(ok, t))
		}
	}
}

// mentionsCallRecord reports whether a clause speaks about the call history of the function it
// belongs to.
func mentionsCallRecord(n *SNode) bool {
	if n == nil {
		return false
	}
	if n.Op == "call" && (n.Text == "called" || n.Text == "callarg" || n.Text == "callres" || n.Text == "callrecv" || n.Text == "at") {
		return true
	}
	for _, a := range n.Args {
		if mentionsCallRecord(a) {
			return true
		}
	}
	return false
}

func mentionsFn(n *SNode, name string) bool {
	if n == nil {
		return false
	}
	if n.Op == "call" && n.Text == name {
		return true
	}
	for _, a := range n.Args {
		if mentionsFn(a, name) {
			return true
		}
	}
	return false
}

// closeUnderLock: a lock invariant that speaks about closed(<field>) is only sound when that channel is
// closed with the lock held (the invariant is assumed at Lock by code that goes on to send on the channel).
func (c *Ctx) closeUnderLock(st *State, fr *Frame, ins ssa.Instruction, ch Term) {
	o, ok := st.owners[ch.S]
	if !ok {
		if a := st.aliases[ch.S]; a != "" {
			o, ok = st.owners[a]
		}
	}
	if !ok {
		return
	}
	li := c.LockInvs[c.Reg.TypeKey(o.Struct)]
	if li == nil {
		return
	}
	mentioned := false
	for _, cl := range li.Clauses {
		if strings.Contains(cl.Text, "closed("+o.Field+")") {
			mentioned = true
		}
	}
	if !mentioned || c.isFreshObject(st, o.Obj) {
		return
	}
	lockT := c.lockOf(st, o.Struct, o.Obj, li.Lock)
	h := c.Arr(st, famHeld, ArraySort(SInt, SBool))
	c.Oblige(st, fr, ins, "access", "close "+o.Field, Select(h, lockT),
		fmt.Sprintf("close of %s.%s requires %s to be held: the lock invariant speaks about the channel being closed", typeName(o.Struct), o.Field, li.Lock))
}
