package vc

import (
	"bytes"
	"fmt"
	"regexp"
	"context"
	"crypto/sha256"
	"encoding/hex"
	"os/exec"
	"strconv"
	"strings"
	"sync"
	"time"
)

type SolveResult struct {
	Status  string // unsat | sat | unknown | timeout | error
	Solver  string
	Seconds float64
	Model   string
	Detail  string
	All     map[string]string // per-solver status when several were consulted
}

type SolverOpts struct {
	TimeoutSec   int
	FirstTimeout int  // timeout of the first (fast) attempt
	Workers      int
	AllAgree     bool // thorough: ask every solver, report disagreement
	Seed         int
	WantModel    bool
	Batch        bool
	Single       bool // one solver, one attempt (vacuity guards)
}

type solverDef struct {
	name string
	cmd  func(timeoutSec int, seed int) []string
	pre  string
}

var solvers = []solverDef{
	{"z3-5.1.0", func(t, seed int) []string {
		return []string{"z3-new", "-in", "-T:" + itoa(t), "smt.random_seed=" + itoa(seed), "sat.random_seed=" + itoa(seed)}
	}, ""},
	{"z3-4.8.12", func(t, seed int) []string {
		return []string{"z3", "-in", "-T:" + itoa(t), "smt.random_seed=" + itoa(seed)}
	}, ""},
	{"cvc5-1.0.3", func(t, seed int) []string {
		return []string{"cvc5", "--lang=smt2", "--tlimit=" + itoa(t*1000), "--seed=" + itoa(seed), "--strings-exp", "--fp-exp", "-"}
	}, "(set-option :produce-models true)\n(set-logic ALL)\n"},
}

func itoa(i int) string { return strconv.Itoa(i) }

func runSolver(sd solverDef, query string, timeoutSec int, seed int, wantModel bool) SolveResult {
	args := sd.cmd(timeoutSec, seed)
	ctx, cancel := context.WithTimeout(context.Background(), time.Duration(timeoutSec+5)*time.Second)
	defer cancel()
	cmd := exec.CommandContext(ctx, args[0], args[1:]...)
	if strings.HasPrefix(sd.name, "cvc5") && strings.Contains(query, ";zarr ") {
		query = zarrRe.ReplaceAllString(query, "(assert (forall ((i $2)) (! (= (select $1 i) $3) :pattern ((select $1 i)))))")
	}
	text := sd.pre + query + "(check-sat)\n"
	if wantModel {
		text += "(get-model)\n"
	}
	cmd.Stdin = strings.NewReader(text)
	var out, errb bytes.Buffer
	cmd.Stdout = &out
	cmd.Stderr = &errb
	t0 := time.Now()
	_ = cmd.Run()
	dt := time.Since(t0).Seconds()
	lines := strings.Split(strings.TrimSpace(out.String()), "\n")
	res := SolveResult{Solver: sd.name, Seconds: dt}
	status := "error"
	rest := ""
	for i, l := range lines {
		l = strings.TrimSpace(l)
		if l == "sat" || l == "unsat" || l == "unknown" || l == "timeout" {
			status = l
			rest = strings.Join(lines[i+1:], "\n")
			break
		}
		if strings.HasPrefix(l, "(error") {
			res.Detail = l
			break
		}
	}
	if ctx.Err() != nil && status == "error" {
		status = "timeout"
	}
	if status == "unknown" && dt >= float64(timeoutSec)-0.5 {
		status = "timeout"
	}
	if status == "error" && res.Detail == "" {
		res.Detail = firstN(out.String()+errb.String(), 400)
	}
	res.Status = status
	if status == "sat" {
		res.Model = rest
	}
	return res
}

func firstN(s string, n int) string {
	if len(s) > n {
		return s[:n]
	}
	return s
}

// SolveOne decides one query: fast attempt first, then a race of the others.
func SolveOne(query string, o SolverOpts) SolveResult {
	all := map[string]string{}
	if o.AllAgree {
		var wg sync.WaitGroup
		results := make([]SolveResult, len(solvers))
		for i, sd := range solvers {
			wg.Add(1)
			go func(i int, sd solverDef) {
				defer wg.Done()
				results[i] = runSolver(sd, query, o.TimeoutSec, o.Seed, o.WantModel)
			}(i, sd)
		}
		wg.Wait()
		var best *SolveResult
		sawSat, sawUnsat := false, false
		total := 0.0
		for i := range results {
			r := &results[i]
			all[r.Solver] = r.Status
			total += r.Seconds
			if r.Status == "sat" {
				sawSat = true
			}
			if r.Status == "unsat" {
				sawUnsat = true
			}
			if (r.Status == "sat" || r.Status == "unsat") && best == nil {
				best = r
			}
		}
		if sawSat && sawUnsat {
			return SolveResult{Status: "disagree", Solver: "all", Seconds: total, All: all}
		}
		if best == nil {
			best = &results[0]
		}
		best.All = all
		return *best
	}
	ft := o.FirstTimeout
	if ft <= 0 || ft > o.TimeoutSec {
		ft = o.TimeoutSec
	}
	order := solvers
	if o.Seed%2 == 1 {
		// the seed also varies which z3 goes first; results must not depend on it
		order = []solverDef{solvers[1], solvers[0], solvers[2]}
	}
	r := runSolver(order[0], query, ft, o.Seed, o.WantModel)
	all[r.Solver] = r.Status
	if r.Status == "sat" || r.Status == "unsat" || o.Single {
		r.All = all
		return r
	}
	// race the remaining solvers (and the first one again with the full timeout)
	type job struct {
		sd solverDef
		t  int
	}
	jobs := []job{{order[1], o.TimeoutSec}, {order[2], o.TimeoutSec}}
	if ft < o.TimeoutSec {
		jobs = append(jobs, job{order[0], o.TimeoutSec})
	}
	ch := make(chan SolveResult, len(jobs))
	for _, j := range jobs {
		go func(j job) { ch <- runSolver(j.sd, query, j.t, o.Seed, o.WantModel) }(j)
	}
	var last SolveResult = r
	for range jobs {
		x := <-ch
		all[x.Solver] = x.Status
		if x.Status == "sat" || x.Status == "unsat" {
			x.All = all
			x.Seconds += r.Seconds
			return x
		}
		if x.Status != "error" || last.Status == "error" {
			last = x
		}
	}
	last.All = all
	return last
}

func QueryHash(q string) string {
	h := sha256.Sum256([]byte(q))
	return hex.EncodeToString(h[:8])
}

// runBatch decides several independent queries in one z3 process (each inside its own
// push/pop scope, with a per-query timeout). Only `unsat` answers are taken from a batch:
// every other query is decided again on its own (with models and the solver race).
func runBatch(queries []string, perQueryMs int, seed int) []string {
	var b strings.Builder
	fmt.Fprintf(&b, "(set-option :timeout %d)\n", perQueryMs)
	for _, q := range queries {
		b.WriteString("(push 1)\n")
		b.WriteString(q)
		b.WriteString("(check-sat)\n(pop 1)\n")
	}
	total := time.Duration(perQueryMs*len(queries)+20000) * time.Millisecond
	ctx, cancel := context.WithTimeout(context.Background(), total)
	defer cancel()
	cmd := exec.CommandContext(ctx, "z3-new", "-in", "smt.random_seed="+itoa(seed))
	cmd.Stdin = strings.NewReader(b.String())
	var out bytes.Buffer
	cmd.Stdout = &out
	_ = cmd.Run()
	res := make([]string, len(queries))
	i := 0
	for _, l := range strings.Split(out.String(), "\n") {
		l = strings.TrimSpace(l)
		switch l {
		case "sat", "unsat", "unknown", "timeout":
			if i < len(res) {
				res[i] = l
				i++
			}
		default:
			if strings.HasPrefix(l, "(error") && i < len(res) {
				// an error poisons the rest of the batch: leave everything from here undecided
				i = len(res)
			}
		}
	}
	return res
}

// SolveAll decides every obligation, sharing identical queries.
func SolveAll(obls []*Obligation, o SolverOpts) map[*Obligation]SolveResult {
	// (batching several queries per solver process was measured to be slower: z3's incremental
	// mode loses more than process start-up costs; kept for experiments only)
	if o.Batch && !o.AllAgree && len(obls) > 8 {
		return solveAllBatched(obls, o)
	}
	return solveAllSingle(obls, o)
}

func solveAllBatched(obls []*Obligation, o SolverOpts) map[*Obligation]SolveResult {
	type item struct {
		q   string
		obs []*Obligation
	}
	byHash := map[string]*item{}
	var order []*item
	for _, ob := range obls {
		h := QueryHash(ob.Query)
		it := byHash[h]
		if it == nil {
			it = &item{q: ob.Query}
			byHash[h] = it
			order = append(order, it)
		}
		it.obs = append(it.obs, ob)
	}
	res := make(map[*Obligation]SolveResult, len(obls))
	workers := o.Workers
	if workers <= 0 {
		workers = 8
	}
	const batchSize = 24
	type batch struct{ items []*item }
	var batches []batch
	for i := 0; i < len(order); i += batchSize {
		j := i + batchSize
		if j > len(order) {
			j = len(order)
		}
		batches = append(batches, batch{order[i:j]})
	}
	var mu sync.Mutex
	var rest []*Obligation
	ch := make(chan batch)
	var wg sync.WaitGroup
	ft := o.FirstTimeout
	if ft <= 0 {
		ft = 4
	}
	for w := 0; w < workers; w++ {
		wg.Add(1)
		go func() {
			defer wg.Done()
			for bt := range ch {
				qs := make([]string, len(bt.items))
				for i, it := range bt.items {
					qs[i] = it.q
				}
				t0 := time.Now()
				ans := runBatch(qs, ft*1000, o.Seed)
				per := time.Since(t0).Seconds() / float64(len(qs))
				mu.Lock()
				for i, it := range bt.items {
					if ans[i] == "unsat" {
						for _, ob := range it.obs {
							res[ob] = SolveResult{Status: "unsat", Solver: "z3-5.1.0", Seconds: per, All: map[string]string{"z3-5.1.0": "unsat"}}
						}
					} else {
						rest = append(rest, it.obs...)
					}
				}
				mu.Unlock()
			}
		}()
	}
	for _, bt := range batches {
		ch <- bt
	}
	close(ch)
	wg.Wait()
	if len(rest) > 0 {
		for ob, r := range solveAllSingle(rest, o) {
			res[ob] = r
		}
	}
	return res
}

func solveAllSingle(obls []*Obligation, o SolverOpts) map[*Obligation]SolveResult {
	type item struct {
		q   string
		obs []*Obligation
	}
	byHash := map[string]*item{}
	var order []*item
	for _, ob := range obls {
		h := QueryHash(ob.Query)
		it := byHash[h]
		if it == nil {
			it = &item{q: ob.Query}
			byHash[h] = it
			order = append(order, it)
		}
		it.obs = append(it.obs, ob)
	}
	res := make(map[*Obligation]SolveResult, len(obls))
	var mu sync.Mutex
	workers := o.Workers
	if workers <= 0 {
		workers = 8
	}
	ch := make(chan *item)
	var wg sync.WaitGroup
	for w := 0; w < workers; w++ {
		wg.Add(1)
		go func() {
			defer wg.Done()
			for it := range ch {
				oo := o
				r := SolveOne(it.q, oo)
				mu.Lock()
				for _, ob := range it.obs {
					res[ob] = r
				}
				mu.Unlock()
			}
		}()
	}
	for _, it := range order {
		ch <- it
	}
	close(ch)
	wg.Wait()
	return res
}

// ModelValue extracts the value of a constant from a (get-model) answer.
func ModelValue(model string, name string) string {
	idx := strings.Index(model, "(define-fun "+name+" ")
	if idx < 0 {
		return "?"
	}
	rest := model[idx:]
	d := 0
	for i := 0; i < len(rest); i++ {
		switch rest[i] {
		case '(':
			d++
		case ')':
			d--
			if d == 0 {
				def := rest[:i]
				// (define-fun name () Sort value
				j := strings.Index(def, "()")
				if j < 0 {
					return "?"
				}
				body := strings.TrimSpace(def[j+2:])
				// skip the sort
				k := sortEnd(body)
				return strings.Join(strings.Fields(body[k:]), " ")
			}
		}
	}
	return "?"
}

var zarrRe = regexp.MustCompile(`(?m)^\(assert \(= (zarr_\S+) .*\)\)\) ;zarr (\S+) (.*)$`)
