package vc

import (
	"fmt"
	"go/ast"
	"go/token"
	"go/types"
	"os"
	"path/filepath"
	"regexp"
	"sort"
	"strings"

	"golang.org/x/tools/go/packages"
	"golang.org/x/tools/go/ssa"
	"golang.org/x/tools/go/ssa/ssautil"
)

type Ctx struct {
	LegacySiteOrder bool // development aid: the historical (not strictly ordered) numbering of instruction sites
	NoReach   bool // do not emit reachability guards after calls
	Reg       *Registry
	Fset      *token.FileSet
	Prog      *ssa.Program
	SSAPkgs   []*ssa.Package
	Pkgs      []*packages.Package
	Funcs     map[string]*ssa.Function // key: pkgpath::relname
	Contracts map[string]*Contract     // key: pkgpath::relname  or extern full name
	Pures     map[string][]*PureDef
	Ghosts    map[string]*GhostDef
	FieldAnnos map[string]*fieldMode // key: structkey|field
	LockInvs  map[string]*LockInv     // key: structkey
	LockInvPkg map[string]*types.Package
	Lemmas    []*Lemma
	Axioms    []Clause
	Mismatch  []string // contracts that no longer fit the code (function or instruction site gone)
	ChanInvs  map[string]*ChanInv // structkey|field
	LemmaPkg  map[string]*packages.Package
	SpecFiles []*SpecFile
	famSorts  map[string]Sort
	addrPos   map[string]bool

	Obls      []*Obligation
	Notes     []string
	Errors    []string

	MaxInline  int
	PathBudget int

	// per top-level run
	cur *funcRun

	sites map[*ssa.Function]map[ssa.Instruction]siteInfo
	loops map[*ssa.Function]*loopInfo
	summaries map[*ssa.Function]*writeSummary
	ModuleRoot string
	ModulePath string
	pkgOfFile map[string]*packages.Package
	inlineStack []*ssa.Function
	// FindingResidual: obligation name of a listed known finding -> spec expression
	// describing exactly the failing cases that are excused
	FindingResidual map[string]string
	afterEntry func(run *funcRun, st *State)
	initStates map[*ssa.Package]*State
	curState *State
	assigned map[*ssa.Function]map[ast.Expr]string
	singleImplAllowed map[string]bool
	dispatch map[string]types.Type // interface key -> concrete type
	fieldMapTypes map[string]*types.Map
	allocCache map[*ssa.Function]map[string]bool
	settable map[string]bool // boolean ghosts updated by `set` statements
}

type fieldMode struct {
	Mode string // guarded_by | immutable | atomic | owned_by | sync | chan
	Arg  string
	Deep bool
	Owned string // additionally owned_by(<goroutine>)
	ReceivedBy string // received_by(g): only goroutine g receives from the channel the field holds
	NeverClosed bool // the channel the field holds is never closed
	Frozen bool // frozen_contents: the contents of the map the field holds are written only before the object is shared
	Contents string // additionally guarded_contents(<lock>): the contents of the map the field holds are guarded
	Others bool // annotation comes from `fields T <mode>: others` (write obligations only; no frame axiom is assumed from it)
}

type funcRun struct {
	fn       *ssa.Function
	key      string
	contract *Contract
	paths    int
	aborted  string
	entrySt  *State
	params   map[string]Value
	goroutine string
	oblCount  int
	reachSeen map[string]int
	lets      map[string]specVal
	notes     []string
	externUsed  map[string]bool
	modularUsed map[string]bool
	modelVars []ModelVar
	oldCache  map[*SNode]specVal
	entryMeasure Term
	entryMeasures []Term
	entryAlloc Term
	isInit bool
	tokenWg Term
	entryHeld Term
	entryArrays map[string]Term
	shared      []sharedRef
}

type sharedRef struct {
	name  string
	ref   Term // map reference or backing array of the slice
	slice bool
	lock  Term
}

type siteInfo struct {
	class string
	ord   int
}

// Load loads the given package patterns from dir with build tag `verif`.
func Load(dir string, patterns []string) (*Ctx, error) {
	cfg := &packages.Config{
		Mode:       packages.LoadSyntax | packages.NeedModule,
		Dir:        dir,
		BuildFlags: []string{"-tags=verif"},
		Env:        append(os.Environ(), "GOFLAGS=-mod=mod", "GOPROXY=off", "GOSUMDB=off", "GOTOOLCHAIN=local"),
	}
	pkgs, err := packages.Load(cfg, patterns...)
	if err != nil {
		return nil, err
	}
	var errs []string
	for _, p := range pkgs {
		for _, e := range p.Errors {
			errs = append(errs, e.Error())
		}
	}
	if len(errs) > 0 {
		return nil, fmt.Errorf("package load errors:\n%s", strings.Join(errs, "\n"))
	}
	prog, spkgs := ssautil.Packages(pkgs, ssa.InstantiateGenerics|ssa.GlobalDebug)
	prog.Build()
	c := &Ctx{
		Reg:        NewRegistry(),
		Prog:       prog,
		SSAPkgs:    spkgs,
		Pkgs:       pkgs,
		Funcs:      map[string]*ssa.Function{},
		Contracts:  map[string]*Contract{},
		Pures:      map[string][]*PureDef{},
		Ghosts:     map[string]*GhostDef{},
		FieldAnnos: map[string]*fieldMode{},
		LockInvs:   map[string]*LockInv{},
		LockInvPkg: map[string]*types.Package{},
		LemmaPkg:   map[string]*packages.Package{},
		famSorts:   map[string]Sort{},
		addrPos:    map[string]bool{},
		MaxInline:  4,
		PathBudget: 4000,
		sites:      map[*ssa.Function]map[ssa.Instruction]siteInfo{},
		loops:      map[*ssa.Function]*loopInfo{},
		summaries:  map[*ssa.Function]*writeSummary{},
		pkgOfFile:  map[string]*packages.Package{},
		singleImplAllowed: map[string]bool{},
		dispatch: map[string]types.Type{},
		FindingResidual: map[string]string{},
		initStates: map[*ssa.Package]*State{},
		ChanInvs: map[string]*ChanInv{},
		assigned: map[*ssa.Function]map[ast.Expr]string{},
	}
	if len(pkgs) > 0 {
		c.Fset = pkgs[0].Fset
		if pkgs[0].Module != nil {
			c.ModuleRoot = pkgs[0].Module.Dir
			c.ModulePath = pkgs[0].Module.Path
		}
	}
	for _, sp := range spkgs {
		if sp == nil {
			continue
		}
		c.indexPackage(sp)
	}
	return c, nil
}

func (c *Ctx) indexPackage(sp *ssa.Package) {
	var add func(f *ssa.Function)
	add = func(f *ssa.Function) {
		if f == nil {
			return
		}
		c.Funcs[c.FuncKey(f)] = f
		for _, a := range f.AnonFuncs {
			add(a)
		}
	}
	for _, m := range sp.Members {
		switch x := m.(type) {
		case *ssa.Function:
			add(x)
		case *ssa.Type:
			for _, t := range []types.Type{x.Type(), types.NewPointer(x.Type())} {
				ms := c.Prog.MethodSets.MethodSet(t)
				for i := 0; i < ms.Len(); i++ {
					f := c.Prog.MethodValue(ms.At(i))
					if f != nil && (f.Pkg == sp || (f.Pkg == nil && f.Synthetic != "" && ms.At(i).Obj().Pkg() == sp.Pkg)) {
						add(f)
					}
				}
			}
		}
	}
}

var typeArgRe = regexp.MustCompile(`\[[^\[\]]*\]`)

// FuncKey is the stable name of a function: pkgpath::relname for functions with a
// package, the full string otherwise.
func (c *Ctx) FuncKey(f *ssa.Function) string {
	if f.Pkg == nil && f.Synthetic != "" && f.Signature.Recv() != nil {
		// pointer-receiver wrapper of a value method: name it after the receiver's package
		rt := f.Signature.Recv().Type()
		if p, ok := rt.(*types.Pointer); ok {
			if n, ok := p.Elem().(*types.Named); ok && n.Obj().Pkg() != nil {
				return n.Obj().Pkg().Path() + "::(*" + n.Obj().Name() + ")." + f.Name()
			}
		}
	}
	if f.Pkg != nil {
		return f.Pkg.Pkg.Path() + "::" + f.RelString(f.Pkg.Pkg)
	}
	if f.Origin() != nil && f.Origin().Pkg != nil {
		o := f.Origin()
		return o.Pkg.Pkg.Path() + "::" + o.RelString(o.Pkg.Pkg)
	}
	return f.String()
}

// ShortName renders a function key relative to the module.
func (c *Ctx) ShortName(key string) string {
	if c.ModulePath != "" && strings.HasPrefix(key, c.ModulePath) {
		k := strings.TrimPrefix(key, c.ModulePath)
		k = strings.TrimPrefix(k, "/")
		i := strings.Index(k, "::")
		if i >= 0 {
			pkg := k[:i]
			if pkg == "" {
				pkg = "engine"
			}
			if j := strings.LastIndex(pkg, "/"); j >= 0 {
				pkg = pkg[j+1:]
			}
			return pkg + "." + k[i+2:]
		}
	}
	return key
}

// LoadRepoSpecs reads every zz_contracts_verif.go of the loaded packages.
func (c *Ctx) LoadRepoSpecs() error {
	for _, p := range c.Pkgs {
		for _, f := range p.CompiledGoFiles {
			c.pkgOfFile[f] = p
			if filepath.Base(f) != "zz_contracts_verif.go" {
				continue
			}
			data, err := os.ReadFile(f)
			if err != nil {
				return err
			}
			sf, err := ParseSpecText(f, string(data), false)
			if err != nil {
				return err
			}
			sf.Pkg = p.PkgPath
			if err := c.addSpecFile(sf, p); err != nil {
				return err
			}
		}
	}
	return nil
}

// LoadExternSpecs reads *.spec files of assumed contracts.
func (c *Ctx) LoadExternSpecs(dir string) error {
	files, _ := filepath.Glob(filepath.Join(dir, "*.spec"))
	sort.Strings(files)
	for _, f := range files {
		data, err := os.ReadFile(f)
		if err != nil {
			return err
		}
		sf, err := ParseSpecText(f, string(data), true)
		if err != nil {
			return err
		}
		if err := c.addSpecFile(sf, nil); err != nil {
			return err
		}
	}
	return nil
}

func (c *Ctx) addSpecFile(sf *SpecFile, p *packages.Package) error {
	c.SpecFiles = append(c.SpecFiles, sf)
	for _, ct := range sf.Contracts {
		key := ct.Key
		if p != nil && !ct.Extern {
			key = p.PkgPath + "::" + ct.Key
			if strings.HasPrefix(ct.Key, "field ") {
				// contract of the function values stored in a struct field: field T.f
				parts := strings.Split(strings.TrimPrefix(ct.Key, "field "), ".")
				obj := p.Types.Scope().Lookup(parts[0])
				if len(parts) != 2 || obj == nil {
					return fmt.Errorf("CONTRACT-ERROR %s: bad field contract %q", sf.Path, ct.Key)
				}
				key = "field:" + c.Reg.TypeKey(obj.Type()) + "|" + parts[1]
				ct.Opts["iface"] = "true"
			} else if strings.HasPrefix(ct.Key, "iface ") {
				// interface method contract of a repo interface: iface Name.Method
				key = "(" + p.PkgPath + "." + strings.Replace(strings.TrimPrefix(ct.Key, "iface "), ".", ").", 1)
				ct.Extern = false
				ct.Opts["iface"] = "true"
			} else if _, ok := c.Funcs[key]; !ok {
				// the code no longer has the function this contract was written for
				c.Mismatch = append(c.Mismatch, fmt.Sprintf("CONTRACT-ERROR %s: no function %q in package %s", sf.Path, ct.Key, p.PkgPath))
				continue
			}
		} else {
			ct.Extern = true
		}
		if _, dup := c.Contracts[key]; dup {
			return fmt.Errorf("CONTRACT-ERROR %s: duplicate contract for %s", sf.Path, key)
		}
		ct.Key = key
		if p != nil {
			ct.Pkg = p.Types
		}
		c.Contracts[key] = ct
	}
	for _, pd := range sf.Pures {
		if p != nil {
			pd.Pkg = p.Types
		}
		c.Pures[pd.Name] = append(c.Pures[pd.Name], pd)
	}
	for _, g := range sf.Ghosts {
		c.Ghosts[g.Name] = g
		if p != nil {
			c.LemmaPkg["ghost:"+g.Name] = p
		}
	}
	// axioms: assumed facts about dependencies (extern specs) or definitions of ghost
	// functions (contract files); each is evaluated where its identifiers resolve
	for _, ax := range sf.Axioms {
		if p != nil {
			ax.Pkg = p.Types
		}
		c.Axioms = append(c.Axioms, ax)
	}
	for _, l := range sf.Lemmas {
		c.Lemmas = append(c.Lemmas, l)
		if p != nil {
			c.LemmaPkg[l.Name] = p
		}
	}
	if p != nil {
		for _, d := range sf.Dispatch {
			t, err := c.resolveType(p.Types, d[1])
			if err != nil {
				return fmt.Errorf("CONTRACT-ERROR %s: dispatch: %v", sf.Path, err)
			}
			c.dispatch[p.PkgPath+"."+d[0]] = t
		}
		var othersOf []othersAnno
		for _, fa := range sf.Fields {
			obj := p.Types.Scope().Lookup(fa.Struct)
			if obj == nil {
				return fmt.Errorf("CONTRACT-ERROR %s: no type %q", sf.Path, fa.Struct)
			}
			st, ok := obj.Type().Underlying().(*types.Struct)
			if !ok {
				return fmt.Errorf("CONTRACT-ERROR %s: %q is not a struct", sf.Path, fa.Struct)
			}
			for _, fn := range fa.Fields {
				if fn == "others" {
					// `fields T immutable: others`: every field of T that carries no annotation of its
					// own - including fields added to the struct later - is covered (expanded below,
					// after all explicit annotations of the file are known)
					othersOf = append(othersOf, othersAnno{fa: fa, typ: obj.Type(), st: st})
					continue
				}
				found := false
				for i := 0; i < st.NumFields(); i++ {
					if st.Field(i).Name() == fn {
						found = true
					}
				}
				if !found {
					return fmt.Errorf("CONTRACT-ERROR %s: struct %s has no field %q", sf.Path, fa.Struct, fn)
				}
				k := c.Reg.TypeKey(obj.Type()) + "|" + fn
				if c.fieldMapTypes == nil {
					c.fieldMapTypes = map[string]*types.Map{}
				}
				for i := 0; i < st.NumFields(); i++ {
					if st.Field(i).Name() == fn {
						if mt, ok := st.Field(i).Type().Underlying().(*types.Map); ok {
							c.fieldMapTypes[k] = mt
						}
					}
				}
				fm := c.FieldAnnos[k]
				if fm == nil {
					fm = &fieldMode{}
					c.FieldAnnos[k] = fm
				}
				if fa.Mode == "owned_by" {
					fm.Owned = fa.Arg
				} else if fa.Mode == "guarded_contents" {
					fm.Contents = fa.Arg
				} else if fa.Mode == "frozen_contents" {
					fm.Frozen = true
				} else if fa.Mode == "received_by" {
					fm.ReceivedBy = fa.Arg
				} else if fa.Mode == "neverclosed" {
					fm.NeverClosed = true
				} else {
					fm.Mode = fa.Mode
					fm.Arg = fa.Arg
					fm.Deep = fa.Deep[fn]
				}
			}
		}
		for _, oa := range othersOf {
			for i := 0; i < oa.st.NumFields(); i++ {
				k := c.Reg.TypeKey(oa.typ) + "|" + oa.st.Field(i).Name()
				if fm := c.FieldAnnos[k]; fm != nil && fm.Mode != "" {
					continue
				}
				fm := c.FieldAnnos[k]
				if fm == nil {
					fm = &fieldMode{}
					c.FieldAnnos[k] = fm
				}
				fm.Mode = oa.fa.Mode
				fm.Arg = oa.fa.Arg
				fm.Others = true
				if mt, ok := oa.st.Field(i).Type().Underlying().(*types.Map); ok && oa.fa.Mode == "immutable" {
					// the contents of a map held by such a field are written only while the object is being built
					fm.Frozen = true
					if c.fieldMapTypes == nil {
						c.fieldMapTypes = map[string]*types.Map{}
					}
					c.fieldMapTypes[k] = mt
				}
			}
		}
		othersOf = nil
		for _, ci := range sf.ChanInvs {
			obj := p.Types.Scope().Lookup(ci.Struct)
			if obj == nil {
				return fmt.Errorf("CONTRACT-ERROR %s: no type %q", sf.Path, ci.Struct)
			}
			ci.Pkg = p.Types
			c.ChanInvs[c.Reg.TypeKey(obj.Type())+"|"+ci.Field] = ci
		}
		for _, li := range sf.LockInvs {
			obj := p.Types.Scope().Lookup(li.Struct)
			if obj == nil {
				return fmt.Errorf("CONTRACT-ERROR %s: no type %q", sf.Path, li.Struct)
			}
			k := c.Reg.TypeKey(obj.Type())
			c.LockInvs[k] = li
			c.LockInvPkg[k] = p.Types
		}
	}
	return nil
}

// pkgFor returns the go/packages package of a function (for name resolution in specs).
func (c *Ctx) typesPkgOf(fn *ssa.Function) *types.Package {
	if fn.Pkg != nil {
		return fn.Pkg.Pkg
	}
	if fn.Synthetic != "" && fn.Signature.Recv() != nil {
		if p, ok := fn.Signature.Recv().Type().(*types.Pointer); ok {
			if n, ok := p.Elem().(*types.Named); ok && n.Obj().Pkg() != nil {
				return n.Obj().Pkg()
			}
		}
	}
	if fn.Origin() != nil && fn.Origin().Pkg != nil {
		return fn.Origin().Pkg.Pkg
	}
	return nil
}

func (c *Ctx) packageByPath(path string) *packages.Package {
	for _, p := range c.Pkgs {
		if p.PkgPath == path {
			return p
		}
	}
	return nil
}

func (c *Ctx) Notef(format string, a ...any) {
	c.Notes = append(c.Notes, fmt.Sprintf(format, a...))
}

func (c *Ctx) Errorf(format string, a ...any) {
	c.Errors = append(c.Errors, fmt.Sprintf(format, a...))
}

func (c *Ctx) pos(p token.Pos) token.Position {
	if !p.IsValid() {
		return token.Position{}
	}
	return c.Fset.Position(p)
}

// Fork returns a context over the same program with a fresh registry; intBV selects
// machine (64-bit vector) semantics for Go integers.
func (c *Ctx) Fork(intBV bool) *Ctx {
	n := *c
	n.Reg = NewRegistry()
	n.Reg.IntBV = intBV
	n.famSorts = map[string]Sort{}
	n.addrPos = map[string]bool{}
	n.Obls = nil
	n.Notes = nil
	n.Errors = nil
	n.summaries = map[*ssa.Function]*writeSummary{}
	n.initStates = map[*ssa.Package]*State{}
	n.FieldAnnos = map[string]*fieldMode{}
	for k, v := range c.FieldAnnos {
		n.FieldAnnos[k] = v
	}
	return &n
}

type othersAnno struct {
	fa  *FieldAnno
	typ types.Type
	st  *types.Struct
}

// baseContract resolves `opt implements iface [pkg.]Iface.Method` / `opt implements field T.f`:
// the contract the function has to satisfy in addition to its own clauses.
func (c *Ctx) baseContract(ct *Contract) (*Contract, error) {
	spec := strings.TrimSpace(ct.Opts["implements"])
	if spec == "" {
		// `opt assumes ...`: only the preconditions of the named contract are inherited
		spec = strings.TrimSpace(ct.Opts["assumes"])
	}
	if spec == "" || ct.Pkg == nil {
		return nil, nil
	}
	kind, rest := splitWord(spec)
	rest = strings.TrimSpace(rest)
	switch kind {
	case "iface":
		parts := strings.Split(rest, ".")
		pkg := ct.Pkg
		if len(parts) == 3 {
			var found *types.Package
			for _, imp := range ct.Pkg.Imports() {
				if imp.Name() == parts[0] {
					found = imp
				}
			}
			if found == nil {
				return nil, fmt.Errorf("implements: package %q is not imported", parts[0])
			}
			pkg = found
			parts = parts[1:]
		}
		if len(parts) != 2 {
			return nil, fmt.Errorf("implements: bad interface method %q", rest)
		}
		key := "(" + pkg.Path() + "." + parts[0] + ")." + parts[1]
		b := c.Contracts[key]
		if b == nil {
			return nil, fmt.Errorf("implements: no contract %s", key)
		}
		return b, nil
	case "field":
		parts := strings.Split(rest, ".")
		if len(parts) != 2 {
			return nil, fmt.Errorf("implements: bad field %q", rest)
		}
		obj := ct.Pkg.Scope().Lookup(parts[0])
		if obj == nil {
			return nil, fmt.Errorf("implements: no type %q", parts[0])
		}
		key := "field:" + c.Reg.TypeKey(obj.Type()) + "|" + parts[1]
		b := c.Contracts[key]
		if b == nil {
			return nil, fmt.Errorf("implements: no contract %s", key)
		}
		return b, nil
	}
	return nil, fmt.Errorf("implements: expected `iface I.M` or `field T.f`, got %q", spec)
}

// baseEnv: the environment the clauses of the implemented contract are evaluated in (its
// parameter names bound positionally to the parameters of the implementing function).
func (c *Ctx) baseEnv(env *specEnv, base *Contract, fn *ssa.Function) *specEnv {
	e2 := *env
	e2.vars = map[string]specVal{}
	for k, v := range env.vars {
		e2.vars[k] = v
	}
	if base.Pkg != nil {
		e2.pkg = base.Pkg
	}
	off := len(fn.Params) - len(base.Params)
	if off == 1 {
		if v, ok := env.vars["$0"]; ok {
			e2.vars["self"] = v
		}
	}
	for i, nm := range base.Params {
		if v, ok := env.vars[fmt.Sprintf("$%d", i+off)]; ok {
			e2.vars[nm] = v
		}
	}
	return &e2
}
