package vc

import (
	"os"
	"go/ast"
	"fmt"
	"go/token"
	"go/types"
	"sort"
	"strings"

	"golang.org/x/tools/go/ssa"
)

type outcome struct {
	st      *State
	results []Value
	panicked bool
}

type loopInfo struct {
	heads   map[*ssa.BasicBlock]int              // loop head -> ordinal (1-based, in block order)
	body    map[*ssa.BasicBlock]map[*ssa.BasicBlock]bool // head -> blocks of the loop
	back    map[[2]int]bool                      // edges (from,to) that are back edges
}

func (c *Ctx) loopsOf(fn *ssa.Function) *loopInfo {
	if li, ok := c.loops[fn]; ok {
		return li
	}
	li := &loopInfo{heads: map[*ssa.BasicBlock]int{}, body: map[*ssa.BasicBlock]map[*ssa.BasicBlock]bool{}, back: map[[2]int]bool{}}
	for _, b := range fn.Blocks {
		for _, s := range b.Succs {
			if s.Dominates(b) {
				li.back[[2]int{b.Index, s.Index}] = true
				if li.body[s] == nil {
					li.body[s] = map[*ssa.BasicBlock]bool{s: true}
				}
				// natural loop: all nodes that reach b without passing s
				var stack []*ssa.BasicBlock
				if !li.body[s][b] {
					li.body[s][b] = true
					stack = append(stack, b)
				}
				for len(stack) > 0 {
					x := stack[len(stack)-1]
					stack = stack[:len(stack)-1]
					for _, p := range x.Preds {
						if !li.body[s][p] {
							li.body[s][p] = true
							stack = append(stack, p)
						}
					}
				}
			}
		}
	}
	n := 0
	for _, b := range fn.Blocks {
		if _, ok := li.body[b]; ok {
			n++
			li.heads[b] = n
		}
	}
	c.loops[fn] = li
	return li
}

// sitesOf assigns every obligation-generating instruction a class and ordinal
// that do not depend on paths, locals' names or line numbers.
func (c *Ctx) sitesOf(fn *ssa.Function) map[ssa.Instruction]siteInfo {
	if s, ok := c.sites[fn]; ok {
		return s
	}
	out := map[ssa.Instruction]siteInfo{}
	counts := map[string]int{}
	// order instructions by source position when available, else by block order
	type ent struct {
		ins ssa.Instruction
		pos token.Pos
		seq int
	}
	var all []ent
	seq := 0
	for _, b := range fn.Blocks {
		for _, ins := range b.Instrs {
			all = append(all, ent{ins, ins.Pos(), seq})
			seq++
		}
	}
	if !c.LegacySiteOrder {
		// a strict total order: an instruction without a position takes the position of the closest
		// preceding instruction (in block order) that has one; ties are broken by block order
		eff := make([]token.Pos, len(all))
		last := token.NoPos
		for i := range all {
			if all[i].pos.IsValid() {
				last = all[i].pos
			}
			eff[i] = last
		}
		for i := range all {
			all[i].pos = eff[i]
		}
		sort.SliceStable(all, func(i, j int) bool {
			if all[i].pos != all[j].pos {
				return all[i].pos < all[j].pos
			}
			return all[i].seq < all[j].seq
		})
	} else {
		sort.SliceStable(all, func(i, j int) bool {
			pi, pj := all[i].pos, all[j].pos
			if pi.IsValid() && pj.IsValid() && pi != pj {
				return pi < pj
			}
			return all[i].seq < all[j].seq
		})
	}
	for _, e := range all {
		cl := c.siteClass(e.ins)
		if cl == "" {
			continue
		}
		counts[cl]++
		out[e.ins] = siteInfo{cl, counts[cl]}
	}
	c.sites[fn] = out
	return out
}

func (c *Ctx) siteClass(ins ssa.Instruction) string {
	switch x := ins.(type) {
	case *ssa.TypeAssert:
		return "typeassert " + c.shortType(x.AssertedType)
	case *ssa.Panic:
		return "explicit-panic"
	case *ssa.IndexAddr, *ssa.Index:
		return "index"
	case *ssa.Slice:
		return "slice"
	case *ssa.FieldAddr:
		return "nilderef." + fieldName(x)
	case *ssa.Store:
		return "store"
	case *ssa.UnOp:
		if x.Op == token.MUL {
			return "load"
		}
		if x.Op == token.ARROW {
			return "recv"
		}
	case *ssa.MapUpdate:
		return "mapwrite"
	case *ssa.Lookup:
		return "lookup"
	case *ssa.BinOp:
		if x.Op == token.QUO || x.Op == token.REM {
			return "divzero"
		}
		if x.Op == token.ADD || x.Op == token.SUB || x.Op == token.MUL {
			return "arith"
		}
	case *ssa.Convert:
		return "convert"
	case *ssa.Call:
		return "call " + c.calleeName(&x.Call)
	case *ssa.Go:
		return "go " + c.calleeName(&x.Call)
	case *ssa.Defer:
		return "defer " + c.calleeName(&x.Call)
	case *ssa.Send:
		return "send"
	case *ssa.Select:
		return "select"
	case *ssa.Return:
		return "return"
	case *ssa.MakeSlice:
		return "makeslice"
	case *ssa.MakeClosure:
		return "closure " + x.Fn.Name()
	case *ssa.Range:
		return "range"
	case *ssa.MakeChan:
		return "makechan"
	}
	return ""
}

func fieldName(x *ssa.FieldAddr) string {
	st := deref(x.X.Type()).Underlying().(*types.Struct)
	return st.Field(x.Field).Name()
}

func (c *Ctx) shortType(t types.Type) string {
	return types.TypeString(t, func(p *types.Package) string { return p.Name() })
}

func (c *Ctx) calleeName(call *ssa.CallCommon) string {
	if call.IsInvoke() {
		return call.Method.Name()
	}
	switch f := call.Value.(type) {
	case *ssa.Function:
		n := f.Name()
		if f.Signature.Recv() != nil {
			return n
		}
		if f.Pkg != nil && c.ModulePath != "" && !strings.HasPrefix(f.Pkg.Pkg.Path(), c.ModulePath) {
			return f.Pkg.Pkg.Name() + "." + n
		}
		return n
	case *ssa.Builtin:
		return f.Name()
	case *ssa.MakeClosure:
		return f.Fn.Name()
	}
	return "funcvalue"
}

// ---------------------------------------------------------------------------
// Obligations
// ---------------------------------------------------------------------------

// buildGoalQuery: the query refuting `goal`. Leading universal quantifiers and implication
// antecedents of the goal are peeled off (bound variables become fresh constants, antecedents
// assumptions): logically the same query, but the solvers instantiate far better.
func (c *Ctx) buildGoalQuery(st *State, goal Term) string {
	var decls, assumes []string
	g := strings.TrimSpace(goal.S)
	for depth := 0; depth < 8; depth++ {
		if strings.HasPrefix(g, "(forall (") {
			bl, rest := splitSexpr(g[len("(forall "):])
			body, tail := splitSexpr(rest)
			if bl == "" || body == "" || strings.TrimSpace(tail) != ")" || strings.HasPrefix(strings.TrimSpace(body), "(!") {
				break
			}
			// binder list: ((n S) (m T))
			inner := strings.TrimSpace(bl[1 : len(bl)-1])
			for inner != "" {
				one, r := splitSexpr(inner)
				if one == "" {
					break
				}
				decls = append(decls, "(declare-const "+one[1:len(one)-1]+")")
				inner = strings.TrimSpace(r)
			}
			g = strings.TrimSpace(body)
			continue
		}
		if strings.HasPrefix(g, "(=> ") {
			a, rest := splitSexpr(g[len("(=> "):])
			b, tail := splitSexpr(rest)
			if a == "" || b == "" || strings.TrimSpace(tail) != ")" {
				break
			}
			assumes = append(assumes, a)
			g = strings.TrimSpace(b)
			continue
		}
		break
	}
	if len(decls) == 0 && len(assumes) == 0 {
		return c.buildQuery(st, Not(goal))
	}
	q := c.buildQueryOpt(st, True, false)
	var b strings.Builder
	b.WriteString(q)
	for _, d := range decls {
		b.WriteString(d)
		b.WriteByte('\n')
	}
	for _, a := range assumes {
		b.WriteString("(assert " + a + ")\n")
	}
	b.WriteString("(assert (not " + g + "))\n")
	return b.String()
}

// splitSexpr returns the first s-expression (or atom) of s and the rest.
func splitSexpr(s string) (string, string) {
	s = strings.TrimLeft(s, " \n\t")
	if s == "" {
		return "", ""
	}
	if s[0] != '(' {
		if s[0] == '"' {
			j := 1
			for j < len(s) {
				if s[j] == '"' {
					if j+1 < len(s) && s[j+1] == '"' {
						j += 2
						continue
					}
					break
				}
				j++
			}
			if j >= len(s) {
				return "", ""
			}
			return s[:j+1], s[j+1:]
		}
		j := strings.IndexAny(s, " \n\t()")
		if j < 0 {
			return s, ""
		}
		return s[:j], s[j:]
	}
	depth := 0
	inStr := false
	for j := 0; j < len(s); j++ {
		ch := s[j]
		if inStr {
			if ch == '"' {
				if j+1 < len(s) && s[j+1] == '"' {
					j++
					continue
				}
				inStr = false
			}
			continue
		}
		switch ch {
		case '"':
			inStr = true
		case '(':
			depth++
		case ')':
			depth--
			if depth == 0 {
				return s[:j+1], s[j+1:]
			}
		}
	}
	return "", ""
}

func (c *Ctx) buildQuery(st *State, negGoal Term) string {
	return c.buildQueryOpt(st, negGoal, false)
}

// buildQueryOpt: for satisfiability (cover) queries the engine-generated quantified
// background facts (allocation order, frames of fresh objects; binders named q!N) are
// left out: they are true in every execution and only slow down model finding.
func (c *Ctx) buildQueryOpt(st *State, negGoal Term, cover bool) string {
	var b strings.Builder
	b.WriteString(c.Reg.Prelude())
	for _, d := range st.decls.slice() {
		b.WriteString(d)
		b.WriteByte('\n')
	}
	for _, a := range st.pc.slice() {
		if cover && strings.HasPrefix(a, "(forall ((q!") {
			continue
		}
		b.WriteString("(assert ")
		b.WriteString(a)
		b.WriteString(")\n")
	}
	if negGoal.S != "true" {
		b.WriteString("(assert ")
		b.WriteString(negGoal.S)
		b.WriteString(")\n")
	}
	return b.String()
}

// Oblige records the obligation `goal` at the current point and then assumes it.
func (c *Ctx) Oblige(st *State, fr *Frame, ins ssa.Instruction, kind, sub string, goal Term, human string) {
	if goal.S == "true" {
		return
	}
	c.emit(st, fr, ins, kind, sub, goal, human, false)
	st.Assume(goal)
}

// emitReach adds a vacuity guard after the contract of a callee was assumed: the state must stay
// satisfiable on at least one of the (first few) paths that reach the call. A contradictory
// assumed postcondition would otherwise discharge everything after it.
const reachSamples = 6

func (c *Ctx) reachKey(fr *Frame, ins ssa.Instruction) string {
	si := c.sitesOf(ins.Parent())[ins]
	k := fmt.Sprintf("%p/%s#%d", fr, si.class, si.ord)
	if fr != nil && fr.depth > 0 {
		k = fr.callee + "/" + si.class + fmt.Sprint(si.ord)
	}
	return k
}

// reachPreQuery: the state in which the call is made (empty when this call is not sampled).
func (c *Ctx) reachPreQuery(st *State, fr *Frame, ins ssa.Instruction) string {
	run := c.cur
	if run == nil || ins == nil || c.NoReach {
		return ""
	}
	if run.reachSeen[c.reachKey(fr, ins)] >= reachSamples {
		return ""
	}
	return c.buildQueryOpt(st, True, true)
}

func (c *Ctx) emitReach(st *State, fr *Frame, ins ssa.Instruction, callee string, preQuery string) {
	run := c.cur
	if run == nil || ins == nil || c.NoReach || preQuery == "" {
		return
	}
	if run.reachSeen == nil {
		run.reachSeen = map[string]int{}
	}
	k := c.reachKey(fr, ins)
	if run.reachSeen[k] >= reachSamples {
		return
	}
	run.reachSeen[k]++
	n := len(c.Obls)
	c.emit(st, fr, ins, "reach", "after "+callee, True, "the state after assuming the contract of "+callee+" is satisfiable", true)
	if len(c.Obls) > n {
		c.Obls[len(c.Obls)-1].Reach = true
		c.Obls[len(c.Obls)-1].PreQuery = preQuery
		run.oblCount--
	}
}

func (c *Ctx) emit(st *State, fr *Frame, ins ssa.Instruction, kind, sub string, goal Term, human string, cover bool) {
	run := c.cur
	fnKey := run.key
	label := ""
	ord := 0
	var pos token.Position
	if ins != nil {
		si := c.sitesOf(ins.Parent())[ins]
		label = si.class
		ord = si.ord
		pos = c.pos(ins.Pos())
		if !pos.IsValid() {
			// fall back to the closest preceding instruction with a position
			b := ins.Block()
			for i := len(b.Instrs) - 1; i >= 0; i-- {
				if b.Instrs[i].Pos().IsValid() {
					pos = c.pos(b.Instrs[i].Pos())
					break
				}
			}
		}
	}
	if sub != "" {
		if label != "" {
			label += " " + sub
		} else {
			label = sub
		}
	}
	name := c.ShortName(fnKey)
	if fr != nil && fr.depth > 0 {
		name += "/inl[" + fr.callee + "]"
	}
	o := &Obligation{
		Func: fnKey, Kind: kind, Label: label, Ordinal: ord,
		Name:  obName(name, kind, label, ord),
		Pos:   pos,
		Goal:  human,
		Cover: cover,
		Trace: shortTrace(st.trace),
	}
	if cover {
		o.Query = c.buildQueryOpt(st, goal, true)
	} else {
		o.Query = c.buildGoalQuery(st, goal)
	}
	if run.entrySt != nil {
		o.ModelVars = run.modelVars
	}
	c.Obls = append(c.Obls, o)
	run.oblCount++
}

// ---------------------------------------------------------------------------
// Function execution
// ---------------------------------------------------------------------------

func (c *Ctx) reg(fr *Frame, v ssa.Value, st *State) Value {
	switch x := v.(type) {
	case *ssa.Const:
		return c.constVal(st, x)
	case *ssa.Function:
		return c.funcValue(st, x, nil)
	case *ssa.Global:
		t := deref(x.Type())
		return &Loc{Kind: LocGlobal, Global: x, Type: t, Root: t}
	case *ssa.Builtin:
		return x
	}
	if val, ok := fr.regs[v]; ok {
		return val
	}
	panic(fmt.Sprintf("unbound SSA value %s (%T) in %s", v.Name(), v, fr.fn))
}

func (c *Ctx) term(fr *Frame, v ssa.Value, st *State) Term {
	val := c.reg(fr, v, st)
	switch x := val.(type) {
	case Term:
		return x
	case *Loc:
		return c.LowerLoc(st, x)
	}
	panic(fmt.Sprintf("SSA value %s is not a term (%T)", v.Name(), val))
}

func (c *Ctx) constVal(st *State, x *ssa.Const) Value {
	t := x.Type()
	if x.Value == nil {
		return c.Reg.Zero(t)
	}
	if tm, ok := c.Reg.Const(x.Value, t); ok {
		return tm
	}
	return c.FreshConst(st, "const", c.Reg.SortOf(t))
}

// funcValue produces the term of a function value and remembers what it denotes.
func (c *Ctx) funcValue(st *State, fn *ssa.Function, bindings []Value) Term {
	if len(bindings) == 0 {
		name := "fn_" + sanitize(c.FuncKey(fn))
		c.Reg.Declare(name, fmt.Sprintf("(declare-const %s Int)", name))
		c.Reg.Axiom(fmt.Sprintf("(assert (> %s 0))", name))
		t := Term{name, SInt}
		st.closures[t.S] = &Closure{Fn: fn}
		return t
	}
	r := c.NewRef(st, "clo")
	st.closures[r.S] = &Closure{Fn: fn, Bindings: bindings}
	return r
}

type execOpts struct {
	top      bool
	callee   string
	depth    int
}

// execFunc runs fn from its entry on state st and returns the outcomes.
func (c *Ctx) execFunc(st *State, fn *ssa.Function, args []Value, bindings []Value, o execOpts) []outcome {
	if len(fn.Blocks) == 0 {
		panic("execFunc on function without body: " + fn.String())
	}
	fr := &Frame{fn: fn, regs: map[ssa.Value]Value{}, callee: o.callee, depth: o.depth, inLoops: map[*ssa.BasicBlock]bool{}}
	for i, p := range fn.Params {
		fr.regs[p] = args[i]
	}
	for i, fv := range fn.FreeVars {
		fr.regs[fv] = bindings[i]
	}
	return c.execBlock(st, fr, fn.Blocks[0], nil)
}

func (c *Ctx) budget() bool {
	c.cur.paths++
	if c.cur.paths > c.PathBudget {
		if c.cur.aborted == "" {
			c.cur.aborted = fmt.Sprintf("path budget %d exceeded", c.PathBudget)
		}
		return false
	}
	return true
}

// execBlock executes block b (entered from pred) and everything after it.
func (c *Ctx) execBlock(st *State, fr *Frame, b *ssa.BasicBlock, pred *ssa.BasicBlock) []outcome {
	if st.dead || c.cur.aborted != "" {
		return nil
	}
	li := c.loopsOf(fr.fn)
	st.trace = st.trace.push(fmt.Sprintf("%s#%d(%s)", fr.fn.Name(), b.Index, b.Comment))
	// back edge: check the invariant and stop
	if pred != nil && li.back[[2]int{pred.Index, b.Index}] {
		// phis take the values of the back edge
		c.bindPhis(st, fr, b, pred)
		c.checkInvariant(st, fr, b, "inv-preserve")
		return nil
	}
	if _, isHead := li.heads[b]; isHead {
		c.bindPhis(st, fr, b, pred)
		c.checkInvariant(st, fr, b, "inv-establish")
		c.havocLoop(st, fr, b)
		c.assumeInvariant(st, fr, b)
	} else {
		c.bindPhis(st, fr, b, pred)
	}
	states := []*State{st}
	frames := []*Frame{fr}
	for _, ins := range b.Instrs {
		if _, isPhi := ins.(*ssa.Phi); isPhi {
			continue
		}
		switch t := ins.(type) {
		case *ssa.Jump:
			var outs []outcome
			for i, s := range states {
				outs = append(outs, c.execBlock(s, frames[i], b.Succs[0], b)...)
			}
			return outs
		case *ssa.If:
			var outs []outcome
			for i, s := range states {
				cond := c.term(frames[i], t.Cond, s)
				switch cond.S {
				case "true":
					outs = append(outs, c.execBlock(s, frames[i], b.Succs[0], b)...)
					continue
				case "false":
					outs = append(outs, c.execBlock(s, frames[i], b.Succs[1], b)...)
					continue
				}
				if !c.budget() {
					return outs
				}
				s2 := s.Clone()
				f2 := frames[i].clone()
				s.Assume(cond)
				s2.Assume(Not(cond))
				outs = append(outs, c.execBlock(s, frames[i], b.Succs[0], b)...)
				outs = append(outs, c.execBlock(s2, f2, b.Succs[1], b)...)
			}
			return outs
		case *ssa.Return:
			var outs []outcome
			for i, s := range states {
				res := make([]Value, len(t.Results))
				for j, r := range t.Results {
					res[j] = c.reg(frames[i], r, s)
				}
				outs = append(outs, outcome{st: s, results: res})
			}
			return outs
		case *ssa.Panic:
			for i, s := range states {
				c.emit(s, frames[i], ins, "nopanic", "", False, "explicit panic reachable", false)
			}
			return nil
		}
		var nstates []*State
		var nframes []*Frame
		for i, s := range states {
			if s.dead {
				continue
			}
			c.checkSiteAsserts(s, frames[i], ins)
			nexts := c.step(s, frames[i], ins)
			for _, n := range nexts {
				nstates = append(nstates, n.st)
				nframes = append(nframes, n.fr)
			}
		}
		states, frames = nstates, nframes
		if len(states) == 0 {
			return nil
		}
	}
	return nil
}

type cont struct {
	st *State
	fr *Frame
}

func (c *Ctx) bindPhis(st *State, fr *Frame, b *ssa.BasicBlock, pred *ssa.BasicBlock) {
	if pred == nil {
		return
	}
	idx := -1
	for i, p := range b.Preds {
		if p == pred {
			idx = i
			break
		}
	}
	if idx < 0 {
		return
	}
	// parallel assignment
	vals := map[*ssa.Phi]Value{}
	for _, ins := range b.Instrs {
		phi, ok := ins.(*ssa.Phi)
		if !ok {
			break
		}
		vals[phi] = c.reg(fr, phi.Edges[idx], st)
	}
	for phi, v := range vals {
		fr.regs[phi] = v
	}
}

// loopContract finds the invariants for the loop headed by b.
func (c *Ctx) loopContract(fr *Frame, b *ssa.BasicBlock) ([]Clause, []string, int) {
	ord := c.loopsOf(fr.fn).heads[b]
	ct := c.Contracts[c.FuncKey(fr.fn)]
	if ct == nil {
		return nil, nil, ord
	}
	return ct.LoopInv[ord], ct.LoopMod[ord], ord
}

func (c *Ctx) checkInvariant(st *State, fr *Frame, b *ssa.BasicBlock, kind string) {
	invs, _, ord := c.loopContract(fr, b)
	for i, cl := range invs {
		env := c.envForFrame(st, fr)
		env.loopHead = b
		c.bindLoopVars(env, fr, b)
		t, err := c.evalGoal(env, cl.Expr)
		if err != nil {
			c.Errorf("CONTRACT-ERROR %s: loop %d invariant: %v", cl.Line, ord, err)
			continue
		}
		label := cl.Label
		if label == "" {
			label = fmt.Sprintf("loop%d.%d", ord, i+1)
		} else {
			label = fmt.Sprintf("loop%d.%s", ord, label)
		}
		c.emit(st, fr, nil, kind, label, t, cl.Text, false)
	}
}

func (c *Ctx) assumeInvariant(st *State, fr *Frame, b *ssa.BasicBlock) {
	invs, _, ord := c.loopContract(fr, b)
	for _, cl := range invs {
		env := c.envForFrame(st, fr)
		env.loopHead = b
		c.bindLoopVars(env, fr, b)
		t, err := c.evalBool(env, cl.Expr)
		if err != nil {
			c.Errorf("CONTRACT-ERROR %s: loop %d invariant: %v", cl.Line, ord, err)
			continue
		}
		st.Assume(t)
	}
}

// havocLoop forgets everything the loop may change: its phis and the heap
// locations its body writes.
func (c *Ctx) havocLoop(st *State, fr *Frame, head *ssa.BasicBlock) {
	li := c.loopsOf(fr.fn)
	body := li.body[head]
	for _, ins := range head.Instrs {
		phi, ok := ins.(*ssa.Phi)
		if !ok {
			break
		}
		sort := c.Reg.SortOf(phi.Type())
		if _, isLoc := fr.regs[phi].(*Loc); isLoc {
			// pointer-valued loop variable: lowered to a term
		}
		v0, hadInit := fr.regs[phi].(Term)
		v := c.FreshConst(st, "phi."+phi.Name(), sort)
		c.AssumeWF(st, v, phi.Type())
		fr.regs[phi] = v
		// derived invariant of monotone counters: phi = phi + k on every back edge
		if hadInit && sort == SInt {
			dir := 0
			okAll := true
			for i, e := range phi.Edges {
				pred := head.Preds[i]
				if !li.back[[2]int{pred.Index, head.Index}] {
					continue
				}
				bo, isBin := e.(*ssa.BinOp)
				if !isBin || (bo.Op != token.ADD && bo.Op != token.SUB) {
					okAll = false
					break
				}
				var k int64
				var isK bool
				if bo.X == ssa.Value(phi) {
					k, isK = constInt(bo.Y)
				} else if bo.Y == ssa.Value(phi) && bo.Op == token.ADD {
					k, isK = constInt(bo.X)
				}
				if !isK {
					okAll = false
					break
				}
				if bo.Op == token.SUB {
					k = -k
				}
				d := 0
				if k > 0 {
					d = 1
				} else if k < 0 {
					d = -1
				}
				if dir != 0 && d != dir {
					okAll = false
					break
				}
				if d != 0 {
					dir = d
				}
			}
			if okAll && dir > 0 {
				st.Assume(T(SBool, "(>= %s %s)", v.S, v0.S))
			} else if okAll && dir < 0 {
				st.Assume(T(SBool, "(<= %s %s)", v.S, v0.S))
			}
		}
	}
	ws := &writeSummary{fams: map[string]*famWrite{}}
	for b := range body {
		for _, ins := range b.Instrs {
			c.summarizeInstr(ws, fr.fn, ins, 0, body)
		}
	}
	if os.Getenv("GOVC_DEBUG_LOOP") != "" {
		var fs []string
		for f := range ws.fams {
			fs = append(fs, f)
		}
		sort.Strings(fs)
		fmt.Fprintf(os.Stderr, "loop havoc in %s (head %s, %d blocks): top=%v %v\n", fr.fn.Name(), head.String(), len(body), ws.top, fs)
	}
	c.applyHavoc(st, fr, ws, body)
	// range iterators advanced inside the loop
	for b := range body {
		for _, ins := range b.Instrs {
			if nx, ok := ins.(*ssa.Next); ok {
				if it, ok := fr.regs[nx.Iter].(*RangeIter); ok && it.IsMap {
					if rb := nx.Iter.(*ssa.Range).Block(); !body[rb] {
						c.HavocFam(st, it.Visited)
					}
				}
			}
		}
	}
}

// VerifyFunction generates all obligations of one function under contract.
func (c *Ctx) VerifyFunction(key string) (*FuncReport, error) {
	fn := c.Funcs[key]
	if fn == nil {
		return nil, fmt.Errorf("no function %q", key)
	}
	if len(fn.Blocks) == 0 {
		return nil, fmt.Errorf("function %q has no body", key)
	}
	ct := c.Contracts[key]
	run := &funcRun{fn: fn, key: key, contract: ct, params: map[string]Value{}, lets: map[string]specVal{}, externUsed: map[string]bool{}, modularUsed: map[string]bool{}, oldCache: map[*SNode]specVal{}}
	if ct != nil {
		run.goroutine = ct.Opts["goroutine"]
	}
	c.cur = run
	before := len(c.Obls)
	st := c.initialState(fn)
	c.cur = run
	before = len(c.Obls)
	st.trace = st.trace.push("entry " + c.ShortName(key))
	if ct != nil && ct.Opts["recovers"] != "" {
		// `opt recovers`: the function shields its caller from panics of the code it calls (which
		// the contracts of external libraries cannot rule out): its entry block defers a closure
		// that calls recover(). Decided on the SSA, not by a solver.
		c.emit(st, nil, nil, "recovers", "a-panic-of-the-called-code-is-recovered", BoolLit(defersRecover(fn)),
			c.ShortName(key)+" defers a closure that calls recover() before it calls anything else", false)
	}
	// parameters
	args := make([]Value, len(fn.Params))
	for i, p := range fn.Params {
		v := c.FreshConst(st, "p."+p.Name(), c.Reg.SortOf(p.Type()))
		c.AssumeWF(st, v, p.Type())
		args[i] = v
		run.params[p.Name()] = v
		run.modelVars = append(run.modelVars, ModelVar{Name: p.Name(), Term: v.S, Sort: v.Sort})
	}
	bindings := make([]Value, len(fn.FreeVars))
	for i, fv := range fn.FreeVars {
		v := c.FreshConst(st, "fv."+fv.Name(), c.Reg.SortOf(fv.Type()))
		c.AssumeWF(st, v, fv.Type())
		bindings[i] = v
		if _, isPtr := fv.Type().Underlying().(*types.Pointer); isPtr {
			// a captured variable is referenced through the address of its (existing) cell
			st.Assume(T(SBool, "(> %s 0)", v.S))
		}
		run.params[fv.Name()] = v
		run.modelVars = append(run.modelVars, ModelVar{Name: fv.Name(), Term: v.S, Sort: v.Sort})
	}
	run.entrySt = st
	fr0 := &Frame{fn: fn, regs: map[ssa.Value]Value{}}
	for i, p := range fn.Params {
		fr0.regs[p] = args[i]
	}
	for i, fv := range fn.FreeVars {
		fr0.regs[fv] = bindings[i]
	}
	// thread-local ghost counters start at zero: registrations made (wg.Add) and not yet handed to
	// a spawned goroutine, and registrations this goroutine itself was started with
	st.arrays[famWg] = ConstArray(ArraySort(SInt, SInt), IntLit(0))
	st.arrays["TokHeld"] = ConstArray(ArraySort(SInt, SInt), IntLit(0))
	st.arrays["Waited"] = ConstArray(ArraySort(SInt, SBool), False)
	st.arrays["SentNow"] = ConstArray(ArraySort(SInt, SBool), False)
	// a ghost that is only ever changed by `set` statements is false for objects that do not exist yet
	c.assumeSettableGhostsFresh(st, fn)
	// every object that exists at entry may be shared with other goroutines
	st.arrays["Published"] = c.Arr(st, famAlloc, ArraySort(SInt, SBool))
	c.famSorts["Published"] = ArraySort(SInt, SBool)
	c.famSorts["SentNow"] = ArraySort(SInt, SBool)
	c.famSorts[famWg], c.famSorts["TokHeld"], c.famSorts["Waited"] = ArraySort(SInt, SInt), ArraySort(SInt, SInt), ArraySort(SInt, SBool)
	// assumed facts about package-level variables of dependencies (extern spec `axiom` lines)
	{
		env := c.envForFrame(st, fr0)
		for _, ax := range c.Axioms {
			savedErrs := len(c.Errors)
			env.pkg = c.typesPkgOf(fr0.fn)
			if ax.Pkg != nil {
				env.pkg = ax.Pkg
			}
			if t, err := c.evalBool(env, ax.Expr); err == nil {
				st.Assume(t)
				run.externUsed["axiom: "+ax.Text] = true
			}
			c.Errors = c.Errors[:savedErrs]
		}
	}
	if ct != nil {
		// every site assertion must name an existing instruction
		have := map[string]bool{}
		for _, si := range c.sitesOf(fn) {
			have[fmt.Sprintf("%s#%d", si.class, si.ord)] = true
		}
		for k := range ct.SiteAsserts {
			if strings.HasSuffix(k, "#*") {
				okc := false
				for _, si := range c.sitesOf(fn) {
					if si.class+"#*" == k {
						okc = true
					}
				}
				if okc {
					continue
				}
			}
			if !have[k] {
				return nil, fmt.Errorf("CONTRACT-ERROR %s: function %s has no instruction site %q", ct.File, key, k)
			}
		}
		env := c.envForFrame(st, fr0)
		for _, l := range ct.Lets {
			v, err := c.evalSpec(env, l.Expr)
			if err != nil {
				return nil, fmt.Errorf("CONTRACT-ERROR %s: %v", l.Line, err)
			}
			run.lets[l.Label] = v
		}
		for _, sg := range ct.Shared {
			v, err := c.evalSpec(env, sg.Expr)
			if err != nil {
				return nil, fmt.Errorf("CONTRACT-ERROR %s: %v", sg.Line, err)
			}
			lk, err := c.evalSpec(env, sg.Lock)
			if err != nil {
				return nil, fmt.Errorf("CONTRACT-ERROR %s: %v", sg.Line, err)
			}
			sr := sharedRef{name: sg.Name, ref: v.t, lock: lk.t}
			switch v.typ.Underlying().(type) {
			case *types.Map:
			case *types.Slice:
				sr.slice = true
				sr.ref = T(SInt, "(sl_arr %s)", v.t.S)
			default:
				return nil, fmt.Errorf("CONTRACT-ERROR %s: shared %s is neither a map nor a slice", sg.Line, sg.Name)
			}
			run.shared = append(run.shared, sr)
		}
		if tok := ct.Opts["token"]; tok != "" {
			// a goroutine body that is started with a wait-group registration holds one token
			e, err := ParseSpecExpr(tok)
			if err != nil {
				return nil, fmt.Errorf("CONTRACT-ERROR %s: token: %v", ct.File, err)
			}
			v, err := c.evalSpec(env, e)
			if err != nil {
				return nil, fmt.Errorf("CONTRACT-ERROR %s: token: %v", ct.File, err)
			}
			th := c.Arr(st, "TokHeld", ArraySort(SInt, SInt))
			c.SetArr(st, "TokHeld", Store(th, v.t, IntLit(1)))
			run.tokenWg = v.t
		}
		if held := ct.Opts["holds"]; held != "" {
			// sugar: opt holds <lock-expr>
			e, err := ParseSpecExpr(held)
			if err != nil {
				return nil, fmt.Errorf("CONTRACT-ERROR %s: %v", ct.File, err)
			}
			v, err := c.evalSpec(env, e)
			if err != nil {
				return nil, fmt.Errorf("CONTRACT-ERROR %s: %v", ct.File, err)
			}
			c.acquireLockState(st, v.t)
		}
		for _, r := range ct.Requires {
			t, err := c.evalBool(env, r.Expr)
			if err != nil {
				return nil, fmt.Errorf("CONTRACT-ERROR %s: %v", r.Line, err)
			}
			st.Assume(t)
		}
		for _, r := range ct.Captures {
			t, err := c.evalBool(env, r.Expr)
			if err != nil {
				return nil, fmt.Errorf("CONTRACT-ERROR %s: %v", r.Line, err)
			}
			st.Assume(t)
		}
		if base, err := c.baseContract(ct); err != nil {
			return nil, fmt.Errorf("CONTRACT-ERROR %s: %s: %v", ct.File, key, err)
		} else if base != nil {
			if d := len(fn.Params) - len(base.Params); d != 0 && d != 1 {
				return nil, fmt.Errorf("CONTRACT-ERROR %s: %s implements a contract with %d parameters but has %d", ct.File, key, len(base.Params), len(fn.Params))
			}
			benv := c.baseEnv(env, base, fn)
			for _, r := range base.Requires {
				t, err := c.evalBool(benv, r.Expr)
				if err != nil {
					return nil, fmt.Errorf("CONTRACT-ERROR %s (implemented by %s): %v", r.Line, key, err)
				}
				st.Assume(t)
			}
		}
		if ct.Decreases != nil {
			for _, d := range ct.DecreasesList {
				m, err := c.evalSpec(env, d.Expr)
				if err != nil {
					return nil, fmt.Errorf("CONTRACT-ERROR %s: %v", d.Line, err)
				}
				run.entryMeasures = append(run.entryMeasures, m.t)
			}
			run.entryMeasure = run.entryMeasures[0]
		}
		run.entryAlloc = c.Arr(st, famAlloc, ArraySort(SInt, SBool))
		run.entryArrays = make(map[string]Term, len(st.arrays))
		for fam, t := range st.arrays {
			run.entryArrays[fam] = t
		}
		run.entryHeld = c.Arr(st, famHeld, ArraySort(SInt, SBool))
		// vacuity guard: the precondition must be satisfiable
		c.emit(st, nil, nil, "cover", "precondition", True, "precondition satisfiable", true)
	}
	if c.afterEntry != nil {
		c.afterEntry(run, st)
	}
	// entry snapshot: everything materialised so far is the entry heap
	outs := c.execFunc(st, fn, args, bindings, execOpts{top: true})
	rep := &FuncReport{Key: key, Name: c.ShortName(key), Paths: run.paths + 1, Returns: len(outs)}
	if ct != nil {
		for _, o := range outs {
			c.checkPost(o, fn, ct, fr0)
		}
	}
	if run.aborted != "" {
		rep.Aborted = run.aborted
	}
	rep.Obligations = c.Obls[before:]
	if len(outs) > 0 {
		rep.Reachable = true
	}
	rep.Extern, rep.Modular, rep.Notes = run.externUsed, run.modularUsed, run.notes
	c.cur = nil
	return rep, nil
}

type FuncReport struct {
	Key         string
	Name        string
	Paths       int
	Returns     int
	Aborted     string
	Reachable   bool
	Obligations []*Obligation
	Extern      map[string]bool
	Modular     map[string]bool
	Notes       []string
}

func (c *Ctx) checkPost(o outcome, fn *ssa.Function, ct *Contract, fr0 *Frame) {
	st := o.st
	env := c.envForFrame(st, fr0)
	env.results = o.results
	env.fn = fn
	env.post = true
	for i, e := range ct.Ensures {
		t, err := c.evalGoal(env, e.Expr)
		if err != nil {
			c.Errorf("CONTRACT-ERROR %s: %v", e.Line, err)
			continue
		}
		label := e.Label
		if label == "" {
			label = fmt.Sprintf("ensures.%d", i+1)
		}
		c.emit(st, nil, nil, "post", label, t, e.Text, false)
		// a listed known finding excuses only the failing cases it names: outside its
		// residual the postcondition must still hold
		name := obName(c.ShortName(c.cur.key), "post", label, 0)
		if resid, ok := c.FindingResidual[name]; ok && resid != "" {
			re, err := ParseSpecExpr(resid)
			if err != nil {
				c.Errorf("CONTRACT-ERROR known finding %s: residual: %v", name, err)
				continue
			}
			rt, err := c.evalBool(env, re)
			if err != nil {
				c.Errorf("CONTRACT-ERROR known finding %s: residual: %v", name, err)
				continue
			}
			c.emit(st, nil, nil, "post", label+" outside-known-finding", Or(t, rt), e.Text+"  ||  [known finding] "+resid, false)
		}
	}
	if base, err := c.baseContract(ct); err == nil && base != nil && ct.Opts["implements"] != "" {
		benv := c.baseEnv(env, base, fn)
		for i, e := range base.Ensures {
			t, err := c.evalGoal(benv, e.Expr)
			if err != nil {
				c.Errorf("CONTRACT-ERROR %s: %v", e.Line, err)
				continue
			}
			label := e.Label
			if label == "" {
				label = fmt.Sprintf("ensures.%d", i+1)
			}
			c.emit(st, nil, nil, "post", "implements "+label, t, "[implemented contract] "+e.Text, false)
		}
	}
	if ct.HasModifies && !ct.Extern {
		c.checkFrame(st, fn, ct, env)
	}
	if ct.Opts["acquires"] == "" && ct.Opts["releases"] == "" && c.cur.entryHeld.S != "" {
		if h, ok := st.arrays[famHeld]; ok && h.S != c.cur.entryHeld.S {
			c.emit(st, nil, nil, "lock", "balanced", Eq(h, c.cur.entryHeld), "the function returns holding exactly the locks it was called with", false)
		}
	}
	if c.cur.tokenWg.S != "" {
		th := c.Arr(st, "TokHeld", ArraySort(SInt, SInt))
		c.emit(st, nil, nil, "token", "consumed", Eq(Select(th, c.cur.tokenWg), IntLit(0)), "the wait-group registration of this goroutine is given back (wg.Done) on every path", false)
	}
	if ct.Opts["nolocks-at-return"] != "" {
		h := c.Arr(st, famHeld, ArraySort(SInt, SBool))
		c.emit(st, nil, nil, "lock", "released-at-return", Eq(h, ConstArray(ArraySort(SInt, SBool), False)), "no lock is held when the function returns", false)
	}
}

// checkFrame: a function with an explicit modifies clause may change, among the objects
// that existed when it was called, only the listed ones.
func (c *Ctx) checkFrame(st *State, fn *ssa.Function, ct *Contract, env *specEnv) {
	allowed := map[string][]Term{} // family -> bases that may change
	anyFam := map[string]bool{}
	ghostListed := map[string]bool{}
	saved := env.post
	env.post = false
	defer func() { env.post = saved }()
	for _, m := range ct.Modifies {
		kind, rest := splitWord(m)
		switch kind {
		case "heap", "everything":
			return
		case "fam":
			anyFam[strings.TrimSpace(rest)] = true
			continue
		case "ghost":
			ghostListed[strings.TrimSpace(rest)] = true
			continue
		case "chan", "guarded", "fields", "elems":
			// ghost state and type-wide items: not object-level
			if kind == "fields" || kind == "elems" {
				return
			}
			continue
		case "slice", "map":
			e, err := ParseSpecExpr(rest)
			if err != nil {
				continue
			}
			v, err := c.evalSpec(env, e)
			if err != nil {
				c.Errorf("CONTRACT-ERROR %s: modifies %q: %v", ct.File, m, err)
				continue
			}
			if kind == "slice" {
				if sl, ok := v.typ.Underlying().(*types.Slice); ok {
					fam, _ := c.famElem(sl.Elem())
					allowed[fam] = append(allowed[fam], T(SInt, "(sl_arr %s)", v.t.S))
				}
			} else if mt, ok := v.typ.Underlying().(*types.Map); ok {
				d, _ := c.famMapDom(mt)
				vv, _ := c.famMapVal(mt)
				for _, f := range []string{d, vv, famMapLen} {
					allowed[f] = append(allowed[f], v.t)
				}
			}
			continue
		}
		e, err := ParseSpecExpr(m)
		if err != nil || e.Op != "sel" {
			continue
		}
		obj, err := c.evalSpec(env, e.Args[0])
		if err != nil {
			continue
		}
		stT := deref(obj.typ)
		if sty, ok := stT.Underlying().(*types.Struct); ok {
			for i := 0; i < sty.NumFields(); i++ {
				if sty.Field(i).Name() == e.Text {
					fam, _ := c.famField(stT, i)
					allowed[fam] = append(allowed[fam], obj.t)
				}
			}
		}
	}
	ws := c.funcSummary(fn, 0)
	if ws.top {
		c.emit(st, nil, nil, "frame", "unknown-effects", False, "function with a modifies clause calls code whose effects are unknown ("+ws.why+")", false)
		return
	}
	entryAlloc := c.cur.entryAlloc
	if entryAlloc.S == "" {
		return
	}
	for _, fam := range sortedKeys(ws.fams) {
		if anyFam[fam] || strings.HasPrefix(fam, "G|") || strings.HasPrefix(fam, "IT|") {
			continue
		}
		if fw := ws.fams[fam]; fw.freshOnly && !fw.all && len(fw.bases) == 0 {
			// only objects allocated by this very call are written (by construction of the summary)
			continue
		}
		if fam == famAlloc || fam == famHeld || fam == famWg || fam == famChLen || fam == famChClosed || fam == famChCap || fam == famCtxDone || fam == famAtomicBool || fam == "TokHeld" || fam == "Waited" || fam == "SentNow" || fam == "Published" || fam == famMapLen {
			continue
		}
		cur, ok1 := st.arrays[fam]
		entry, ok2 := st.entry[fam]
		if !ok1 || !ok2 || cur.S == entry.S {
			continue
		}
		if strings.HasPrefix(fam, "GH|") {
			if !ghostListed[strings.TrimPrefix(fam, "GH|")] {
				c.emit(st, nil, nil, "frame", famShort(fam), Eq(cur, entry), "ghost state "+famShort(fam)+" is not listed in the modifies clause", false)
			}
			continue
		}
		if strings.HasPrefix(fam, "H|") {
			// lock-protected fields that other goroutines may write are unstable whenever the
			// lock is not held: they are outside the frame discipline
			parts := strings.SplitN(fam, "|", 3)
			if fm := c.FieldAnnos[parts[1]+"|"+parts[2]]; fm != nil && fm.Mode == "guarded_by" && (fm.Owned == "" || fm.Owned != c.cur.goroutine) {
				continue
			}
		}
		q := c.Reg.Fresh("q")
		conds := []string{"(select " + entryAlloc.S + " " + q + ")"}
		for _, b := range allowed[fam] {
			conds = append(conds, "(not (= "+q+" "+b.S+"))")
		}
		goal := T(SBool, "(forall ((%s Int)) (=> (and %s) (= (select %s %s) (select %s %s))))", q, strings.Join(conds, " "), cur.S, q, entry.S, q)
		c.emit(st, nil, nil, "frame", famShort(fam), goal, "only the objects listed in the modifies clause change in "+famShort(fam), false)
	}
}

// bindLoopVars exposes the hidden index of a `range` loop over a slice as
// `rangeidx` (the index of the last completed iteration, -1 before the first).
func (c *Ctx) bindLoopVars(env *specEnv, fr *Frame, head *ssa.BasicBlock) {
	for _, ins := range head.Instrs {
		phi, ok := ins.(*ssa.Phi)
		if !ok {
			break
		}
		t, ok := fr.regs[phi].(Term)
		if !ok {
			continue
		}
		if phi.Comment == "rangeindex" {
			env.vars["rangeidx"] = specVal{t: t, typ: tInt}
		} else if phi.Comment != "" {
			// a loop-carried source variable: at the loop head its value is the phi
			env.vars[phi.Comment] = specVal{t: t, typ: phi.Type()}
		}
	}
	// `outeridx`: the hidden index of the nearest enclosing slice-range loop (index of its last
	// completed iteration; the iteration in progress is outeridx+1)
	var best *ssa.BasicBlock
	var bestT Term
	for _, b := range head.Parent().Blocks {
		if b == head || !b.Dominates(head) {
			continue
		}
		for _, ins := range b.Instrs {
			phi, ok := ins.(*ssa.Phi)
			if !ok {
				break
			}
			if phi.Comment != "rangeindex" {
				continue
			}
			if t, ok := fr.regs[phi].(Term); ok {
				if best == nil || best.Dominates(b) {
					best, bestT = b, t
				}
			}
		}
	}
	if best != nil {
		env.vars["outeridx"] = specVal{t: bestT, typ: tInt}
	}
}

// initialState returns the state after the package initialisers have run: package-level
// variables hold the values given by their declarations. (Writes to package-level
// variables outside of init are flagged by a separate obligation, so these values are
// stable.) If the initialiser cannot be executed symbolically on a single path, nothing
// is known about the globals.
func (c *Ctx) initialState(fn *ssa.Function) *State {
	pkg := fn.Pkg
	if pkg == nil && fn.Parent() != nil {
		pkg = fn.Parent().Pkg
	}
	if pkg == nil {
		if tp := c.typesPkgOf(fn); tp != nil {
			pkg = c.Prog.Package(tp)
		}
	}
	if pkg == nil {
		return NewState()
	}
	if st, ok := c.initStates[pkg]; ok {
		if st == nil {
			return NewState()
		}
		return st.Clone()
	}
	c.initStates[pkg] = nil
	initFn := pkg.Func("init")
	if initFn == nil || len(initFn.Blocks) == 0 {
		return NewState()
	}
	saved := c.cur
	savedObls := len(c.Obls)
	savedErrs := len(c.Errors)
	savedInline, savedBudget := c.MaxInline, c.PathBudget
	c.MaxInline = 12
	c.PathBudget = 200
	run := &funcRun{fn: initFn, key: c.FuncKey(initFn), params: map[string]Value{}, lets: map[string]specVal{}, externUsed: map[string]bool{}, modularUsed: map[string]bool{}, oldCache: map[*SNode]specVal{}, isInit: true}
	c.cur = run
	st := NewState()
	st.trace = st.trace.push("package initialisation")
	// package-level variables are zero before the initialisers run (Go semantics): fields a
	// composite literal does not mention keep that value
	for _, m := range pkg.Members {
		if g, ok := m.(*ssa.Global); ok {
			if strings.HasSuffix(g.Name(), "init$guard") {
				continue
			}
			fam, sort := c.famGlobal(g)
			z := c.Reg.Zero(deref(g.Type()))
			if z.Sort != sort {
				continue
			}
			st.arrays[fam] = z
			st.entry[fam] = z
			c.famSorts[fam] = sort
		}
	}
	var outs []outcome
	func() {
		defer func() {
			if r := recover(); r != nil {
				run.aborted = fmt.Sprint(r)
			}
		}()
		outs = c.execFunc(st, initFn, nil, nil, execOpts{top: true})
	}()
	c.cur = saved
	c.Obls = c.Obls[:savedObls]
	c.Errors = c.Errors[:savedErrs]
	c.MaxInline, c.PathBudget = savedInline, savedBudget
	if run.aborted != "" || len(outs) != 1 {
		extra := ""
		for i, o := range outs {
			tr := o.st.trace.slice()
			if len(tr) > 12 {
				tr = tr[len(tr)-12:]
			}
			extra += fmt.Sprintf(" [outcome %d: %s]", i, strings.Join(tr, ">"))
		}
		c.Notef("package %s: initialiser not executed symbolically (%s, %d outcomes): globals unknown%s", pkg.Pkg.Path(), run.aborted, len(outs), extra)
		return NewState()
	}
	res := outs[0].st
	// objects allocated during init are not "fresh" for the functions verified later
	res.freshObjs = map[string]bool{}
	res.trace = nil
	res.heldLocks = nil
	c.initStates[pkg] = res
	return res.Clone()
}

// checkSiteAsserts proves the assertions a contract attaches to one instruction
// (identified by site class and ordinal, not by line number).
func (c *Ctx) checkSiteAsserts(st *State, fr *Frame, ins ssa.Instruction) {
	ct := c.Contracts[c.FuncKey(fr.fn)]
	if ct == nil || len(ct.SiteAsserts) == 0 {
		return
	}
	si, ok := c.sitesOf(fr.fn)[ins]
	if !ok {
		return
	}
	for _, nm := range ct.SiteSnaps[fmt.Sprintf("%s#%d", si.class, si.ord)] {
		snap := make(map[string]Term, len(st.arrays))
		for k, v := range st.arrays {
			snap[k] = v
		}
		if st.snaps == nil {
			st.snaps = map[string]map[string]Term{}
		}
		st.snaps[nm] = snap
		ct.siteSeen(fmt.Sprintf("%s#%d", si.class, si.ord))
	}
	for _, cl := range ct.SiteSets[fmt.Sprintf("%s#%d", si.class, si.ord)] {
		ct.siteSeen(fmt.Sprintf("%s#%d", si.class, si.ord))
		if err := c.ghostSet(c.envForFrame(st, fr), cl.Expr); err != nil {
			c.Errorf("CONTRACT-ERROR %s: %v", cl.Line, err)
		}
	}
	cls := ct.SiteAsserts[fmt.Sprintf("%s#%d", si.class, si.ord)]
	wild := ct.SiteAsserts[si.class+"#*"]
	if len(cls) == 0 && len(wild) == 0 {
		return
	}
	if len(cls) > 0 {
		ct.siteSeen(fmt.Sprintf("%s#%d", si.class, si.ord))
	}
	if len(wild) > 0 {
		ct.siteSeen(si.class + "#*")
	}
	if call, ok := ins.(*ssa.Call); ok && fr.depth == 0 && strings.HasPrefix(si.class, "call ") {
		// the assertions may speak about the arguments of the call they guard
		k := fmt.Sprintf("%s#%d", strings.TrimPrefix(si.class, "call "), si.ord)
		var args []Value
		for _, a := range call.Call.Args {
			args = append(args, c.reg(fr, a, st))
		}
		st.callArgs[k] = args
		if call.Call.IsInvoke() {
			st.callArgs["recv:"+k] = []Value{c.reg(fr, call.Call.Value, st)}
		}
	}
	env := c.envForFrame(st, fr)
	for i, cl := range append(append([]Clause(nil), cls...), wild...) {
		isWild := i >= len(cls)
		savedErrs := len(c.Errors)
		t, err := c.evalGoal(env, cl.Expr)
		if err != nil {
			if isWild && strings.Contains(err.Error(), "unknown identifier") && c.isLocalName(fr.fn, err.Error()) {
				// an assertion for every site of a class does not apply where one of the local
				// variables it mentions is not declared yet
				c.Errors = c.Errors[:savedErrs]
				continue
			}
			c.Errorf("CONTRACT-ERROR %s: %v", cl.Line, err)
			continue
		}
		label := cl.Label
		if label == "" {
			label = fmt.Sprintf("assert.%d", i+1)
		}
		// A site assertion is checked, not assumed: what follows it must not lean on a claim that
		// may be false (a listed finding, for one, would make the rest of its path vacuous).
		c.emit(st, fr, ins, "site", label, t, cl.Text, false)
	}
}

// isLocalName: does the "unknown identifier" error name a source-level local variable of fn?
func (c *Ctx) isLocalName(fn *ssa.Function, msg string) bool {
	i := strings.Index(msg, "unknown identifier \"")
	if i < 0 {
		return false
	}
	name := msg[i+len("unknown identifier \""):]
	if j := strings.IndexByte(name, '"'); j >= 0 {
		name = name[:j]
	}
	for _, b := range fn.Blocks {
		for _, ins := range b.Instrs {
			if d, ok := ins.(*ssa.DebugRef); ok {
				if id, ok := d.Expr.(*ast.Ident); ok && id.Name == name {
					return true
				}
			}
		}
	}
	return false
}

// ghostSet executes the ghost update `g(args) := true` for a boolean ghost g. Ghost sets are
// the only updates of such a ghost outside of `modifies ghost g` clauses, so a ghost that no
// contract lists as modified only ever grows.
func (c *Ctx) ghostSet(env *specEnv, e *SNode) error {
	if e.Op != "call" {
		return fmt.Errorf("set expects a ghost application g(args)")
	}
	gd, ok := c.Ghosts[e.Text]
	if !ok {
		return fmt.Errorf("set: %s is not a ghost", e.Text)
	}
	pkg := env.pkg
	if p := c.LemmaPkg["ghost:"+gd.Name]; p != nil {
		pkg = p.Types
	}
	fam, sort, pts, rt, err := c.ghostFam(gd, pkg)
	if err != nil {
		return err
	}
	if c.Reg.SortOf(rt) != SBool {
		return fmt.Errorf("set: ghost %s is not boolean", gd.Name)
	}
	if len(e.Args) != len(pts) {
		return fmt.Errorf("ghost %s expects %d arguments", gd.Name, len(pts))
	}
	var idx []Term
	for i, a := range e.Args {
		v, err := c.evalSpec(env, a)
		if err != nil {
			return err
		}
		idx = append(idx, c.coerce(env.st, v, pts[i]))
	}
	cur := c.Arr(env.st, fam, sort)
	// rebuild the curried array bottom-up
	levels := []Term{cur}
	for i := 0; i < len(idx)-1; i++ {
		levels = append(levels, Select(levels[i], idx[i]))
	}
	nv := True
	for i := len(idx) - 1; i >= 0; i-- {
		nv = Store(levels[i], idx[i], nv)
	}
	c.SetArr(env.st, fam, nv)
	return nil
}

func (c *Ctx) assumeSettableGhostsFresh(st *State, fn *ssa.Function) {
	if c.settable == nil {
		c.settable = map[string]bool{}
		for _, ct := range c.Contracts {
			for _, cls := range ct.SiteSets {
				for _, cl := range cls {
					if cl.Expr != nil && cl.Expr.Op == "call" {
						c.settable[cl.Expr.Text] = true
					}
				}
			}
		}
	}
	for _, name := range sortedKeys(c.settable) {
		gd := c.Ghosts[name]
		if gd == nil || len(gd.Params) == 0 {
			continue
		}
		pkg := c.typesPkgOf(fn)
		if p := c.LemmaPkg["ghost:"+gd.Name]; p != nil {
			pkg = p.Types
		}
		fam, sort, pts, rt, err := c.ghostFam(gd, pkg)
		if err != nil || c.Reg.SortOf(rt) != SBool || c.Reg.SortOf(pts[0]) != SInt {
			continue
		}
		if _, isPtr := pts[0].Underlying().(*types.Pointer); !isPtr {
			continue
		}
		g := c.Arr(st, fam, sort)
		al := c.Arr(st, famAlloc, ArraySort(SInt, SBool))
		var binders []string
		cur := g.S
		for i, pt := range pts {
			v := c.Reg.Fresh("q")
			binders = append(binders, fmt.Sprintf("(%s %s)", v, c.Reg.SortOf(pt)))
			cur = fmt.Sprintf("(select %s %s)", cur, v)
			if i == 0 {
				defer func(v string) {}(v)
			}
		}
		first := strings.Fields(strings.Trim(binders[0], "()"))[0]
		st.Assume(T(SBool, "(forall (%s) (=> (not (select %s %s)) (not %s)))", strings.Join(binders, " "), al.S, first, cur))
	}
}

// SiteList lists the instruction sites of fn (for writing site assertions).
func (c *Ctx) SiteList(fn *ssa.Function) []string {
	var out []string
	for ins, si := range c.sitesOf(fn) {
		out = append(out, fmt.Sprintf("%-40s line %d", fmt.Sprintf("%s#%d", si.class, si.ord), c.pos(ins.Pos()).Line))
	}
	sort.Strings(out)
	return out
}

// defersRecover: the entry block of fn defers, before any other call, a closure whose body calls recover().
func defersRecover(fn *ssa.Function) bool {
	if len(fn.Blocks) == 0 {
		return false
	}
	for _, ins := range fn.Blocks[0].Instrs {
		switch x := ins.(type) {
		case *ssa.Defer:
			var body *ssa.Function
			switch f := x.Call.Value.(type) {
			case *ssa.MakeClosure:
				body, _ = f.Fn.(*ssa.Function)
			case *ssa.Function:
				body = f
			}
			if body == nil {
				return false
			}
			for _, b := range body.Blocks {
				for _, i2 := range b.Instrs {
					if call, ok := i2.(*ssa.Call); ok {
						if bi, ok := call.Call.Value.(*ssa.Builtin); ok && bi.Name() == "recover" {
							return true
						}
					}
				}
			}
			return false
		case *ssa.Call, *ssa.Go:
			return false
		}
	}
	return false
}

// SiteOrderDiff lists, for every function under contract, the sites whose ordinal differs between
// the historical ordering and the strict total order (development aid for migrating contracts).
func (c *Ctx) SiteOrderDiff() []string {
	var out []string
	keys := make([]string, 0, len(c.Contracts))
	for k := range c.Contracts {
		keys = append(keys, k)
	}
	sort.Strings(keys)
	for _, k := range keys {
		fn := c.Funcs[k]
		if fn == nil || len(fn.Blocks) == 0 {
			continue
		}
		c.LegacySiteOrder = true
		delete(c.sites, fn)
		old := c.sitesOf(fn)
		c.LegacySiteOrder = false
		delete(c.sites, fn)
		nw := c.sitesOf(fn)
		delete(c.sites, fn)
		for ins, o := range old {
			n := nw[ins]
			if o.ord != n.ord {
				out = append(out, fmt.Sprintf("%s\t%s\t%d\t%d\t%s", k, o.class, o.ord, n.ord, c.pos(ins.Pos())))
			}
		}
	}
	sort.Strings(out)
	return out
}
