package vc

import (
	"fmt"
	"go/types"
	"strings"

	"golang.org/x/tools/go/ssa"
)

// ---------------------------------------------------------------------------
// Heap families
// ---------------------------------------------------------------------------

func (c *Ctx) famField(st types.Type, idx int) (string, Sort) {
	si := c.Reg.StructInfo(st)
	k := c.Reg.TypeKey(st)
	if _, ok := st.(*types.Named); !ok {
		if _, ok := st.(*types.Alias); !ok {
			k = "struct:" + k
		}
	}
	return fmt.Sprintf("H|%s|%s", k, si.st.Field(idx).Name()), ArraySort(SInt, c.Reg.SortOf(si.ftypes[idx]))
}

func (c *Ctx) famCell(t types.Type) (string, Sort) {
	return "C|" + c.Reg.TypeKey(t), ArraySort(SInt, c.Reg.SortOf(t))
}

func (c *Ctx) famElem(t types.Type) (string, Sort) {
	return "E|" + c.Reg.TypeKey(t), ArraySort(SInt, ArraySort(SInt, c.Reg.SortOf(t)))
}

func (c *Ctx) famMapDom(m *types.Map) (string, Sort) {
	return "MD|" + c.Reg.TypeKey(m.Key()) + "|" + c.Reg.TypeKey(m.Elem()), ArraySort(SInt, ArraySort(c.Reg.SortOf(m.Key()), SBool))
}

func (c *Ctx) famMapVal(m *types.Map) (string, Sort) {
	return "MV|" + c.Reg.TypeKey(m.Key()) + "|" + c.Reg.TypeKey(m.Elem()), ArraySort(SInt, ArraySort(c.Reg.SortOf(m.Key()), c.Reg.SortOf(m.Elem())))
}

const (
	famMapLen   = "ML"
	famAlloc    = "Alloc"
	famHeld     = "Held"
	famChLen    = "ChLen"
	famChCap    = "ChCap"
	famChClosed = "ChClosed"
	famWg       = "WgCount"
	famCtxDone  = "CtxDone"
)

func builtinFamSort(f string) (Sort, bool) {
	switch f {
	case famMapLen, famChLen, famChCap, famWg:
		return ArraySort(SInt, SInt), true
	case famAlloc, famHeld, famChClosed, famCtxDone:
		return ArraySort(SInt, SBool), true
	}
	return "", false
}

func (c *Ctx) famGlobal(g *ssa.Global) (string, Sort) {
	return "G|" + g.Pkg.Pkg.Path() + "." + g.Name(), c.Reg.SortOf(deref(g.Type()))
}

func deref(t types.Type) types.Type {
	if p, ok := t.Underlying().(*types.Pointer); ok {
		return p.Elem()
	}
	return t
}

// Arr returns the current version of a heap family, materialising it on first use.
func (c *Ctx) Arr(st *State, fam string, sort Sort) Term {
	if t, ok := st.arrays[fam]; ok {
		return t
	}
	name := c.Reg.Fresh("h." + famShort(fam))
	t := st.Declare(name, sort)
	st.arrays[fam] = t
	if _, ok := st.entry[fam]; !ok {
		if st.epoch == 0 {
			st.entry[fam] = t
		} else {
			e := st.Declare(c.Reg.Fresh("h0."+famShort(fam)), sort)
			st.entry[fam] = e
		}
	}
	c.famSorts[fam] = sort
	if strings.HasSuffix(fam, ".init$guard") {
		// package initialisation has not run yet when its symbolic execution starts
		st.arrays[fam] = False
		return False
	}
	c.initFamily(st, fam, t)
	return t
}

// EntryArr returns the entry version of a family (for old()).
func (c *Ctx) EntryArr(st *State, fam string, sort Sort) Term {
	if t, ok := st.entry[fam]; ok {
		return t
	}
	c.Arr(st, fam, sort)
	return st.entry[fam]
}

func famShort(f string) string {
	parts := strings.Split(f, "|")
	for i, p := range parts {
		if j := strings.LastIndex(p, "/"); j >= 0 {
			parts[i] = p[j+1:]
		}
	}
	return strings.Join(parts, ".")
}

// initFamily adds the background facts every version-0 array satisfies.
func (c *Ctx) initFamily(st *State, fam string, t Term) {
	switch {
	case strings.HasPrefix(fam, "MD|"):
		// the nil map has an empty domain
		st.Assume(Eq(Select(t, IntLit(0)), ConstArray(arrayElem(t.Sort), False)))
	case fam == famMapLen:
		st.Assume(Eq(Select(t, IntLit(0)), IntLit(0)))
	case fam == famAlloc:
		st.Assume(Not(Select(t, IntLit(0))))
	case strings.HasSuffix(fam, ".init$guard"):
		// package initialisation has not run yet when its symbolic execution starts
		st.Assume(Not(t))
	}
}

// SetArr installs a new version of a family.
func (c *Ctx) SetArr(st *State, fam string, v Term) {
	// name the new version to keep terms linear
	name := c.Reg.Fresh("h." + famShort(fam))
	t := st.Declare(name, v.Sort)
	st.Assume(Eq(t, v))
	st.arrays[fam] = t
	c.famSorts[fam] = v.Sort
}

// HavocFam replaces a family by an unconstrained fresh version.
func (c *Ctx) HavocFam(st *State, fam string) {
	sort, ok := c.famSorts[fam]
	if !ok {
		if cur, ok2 := st.arrays[fam]; ok2 {
			sort = cur.Sort
		} else {
			return
		}
	}
	if _, ok := st.arrays[fam]; !ok {
		c.Arr(st, fam, sort)
	}
	name := c.Reg.Fresh("hv." + famShort(fam))
	t := st.Declare(name, sort)
	st.arrays[fam] = t
	if fam == famAlloc {
		st.Assume(Not(Select(t, IntLit(0))))
	}
	if strings.HasPrefix(fam, "MD|") {
		st.Assume(Eq(Select(t, IntLit(0)), ConstArray(arrayElem(t.Sort), False)))
	}
	if fam == famMapLen {
		st.Assume(Eq(Select(t, IntLit(0)), IntLit(0)))
	}
}

// HavocAll forgets the whole heap (call to an unknown function with effects).
func (c *Ctx) HavocAll(st *State, keepGhost bool) {
	// allocation only grows: keep a monotonic link
	oldAlloc := c.Arr(st, famAlloc, ArraySort(SInt, SBool))
	for fam := range st.arrays {
		if keepGhost && (fam == famHeld || fam == famWg) {
			continue
		}
		if strings.HasPrefix(fam, "IT|") || fam == "SentNow" || fam == "Waited" || fam == "TokHeld" {
			continue // thread-local ghost state of the executing function
		}
		old := st.arrays[fam]
		c.HavocFam(st, fam)
		// a field annotated immutable is written only while its object is being built (every other
		// store is flagged by an access obligation): objects that existed keep it
		if strings.HasPrefix(fam, "H|") {
			if fm := c.FieldAnnos[strings.TrimPrefix(fam, "H|")]; fm != nil && fm.Mode == "immutable" {
				x := c.Reg.Fresh("q")
				st.Assume(T(SBool, "(forall ((%s Int)) (=> (select %s %s) (= (select %s %s) (select %s %s))))", x, oldAlloc.S, x, st.arrays[fam].S, x, old.S, x))
			}
		}
		// non-escaping locals of the executing function cannot be reached by anybody else
		if strings.HasPrefix(fam, "H|") || strings.HasPrefix(fam, "C|") || strings.HasPrefix(fam, "E|") {
			nw := st.arrays[fam]
			for _, l := range st.locals {
				st.Assume(T(SBool, "(= (select %s %s) (select %s %s))", nw.S, l, old.S, l))
			}
		}
	}
	st.epoch++
	// families not yet materialised will be created fresh after the epoch bump
	newAlloc := c.Arr(st, famAlloc, ArraySort(SInt, SBool))
	x := c.Reg.Fresh("q")
	st.Assume(T(SBool, "(forall ((%s Int)) (=> (select %s %s) (select %s %s)))", x, oldAlloc.S, x, newAlloc.S, x))
}

// Fresh returns an unconstrained constant.
func (c *Ctx) FreshConst(st *State, prefix string, sort Sort) Term {
	return st.Declare(c.Reg.Fresh(prefix), sort)
}

// Name binds a term to a fresh constant (keeps queries linear in size).
func (c *Ctx) Name(st *State, prefix string, t Term) Term {
	if len(t.S) < 40 || len(st.qbinders) > 0 {
		return t
	}
	n := st.Declare(c.Reg.Fresh(prefix), t.Sort)
	st.Assume(Eq(n, t))
	st.aliases[n.S] = t.S
	// propagate Go-side facts
	if ty, ok := st.boxed[t.S]; ok {
		st.boxed[n.S] = ty
	}
	if cl, ok := st.closures[t.S]; ok {
		st.closures[n.S] = cl
	}
	if o, ok := st.owners[t.S]; ok {
		st.owners[n.S] = o
	}
	return n
}

// NewRef allocates a fresh reference distinct from every allocated one.
func (c *Ctx) NewRef(st *State, prefix string) Term {
	r := c.FreshConst(st, prefix, SInt)
	al := c.Arr(st, famAlloc, ArraySort(SInt, SBool))
	st.Assume(Not(Eq(r, IntLit(0))))
	st.Assume(T(SBool, "(> %s 0)", r.S))
	st.Assume(Not(Select(al, r)))
	// references are handed out in increasing order: an object is older than every
	// object allocated after it (used as a well-founded measure on immutable structures)
	q := c.Reg.Fresh("q")
	st.Assume(T(SBool, "(forall ((%s Int)) (=> (select %s %s) (< %s %s)))", q, al.S, q, q, r.S))
	c.SetArr(st, famAlloc, Store(al, r, True))
	return r
}

// AssumeWF adds the type invariants of a value of Go type t.
func (c *Ctx) AssumeWF(st *State, v Term, t types.Type) {
	switch u := t.Underlying().(type) {
	case *types.Slice:
		st.Assume(T(SBool, "(and (>= (sl_len %s) 0) (<= (sl_len %s) (sl_cap %s)) (>= (sl_off %s) 0) (>= (sl_arr %s) 0) (=> (= (sl_arr %s) 0) (= (sl_cap %s) 0)))", v.S, v.S, v.S, v.S, v.S, v.S, v.S))
		al := c.Arr(st, famAlloc, ArraySort(SInt, SBool))
		st.Assume(T(SBool, "(or (= (sl_arr %s) 0) (select %s (sl_arr %s)))", v.S, al.S, v.S))
	case *types.Pointer, *types.Map, *types.Chan, *types.Signature:
		al := c.Arr(st, famAlloc, ArraySort(SInt, SBool))
		st.Assume(T(SBool, "(and (>= %s 0) (or (= %s 0) (select %s %s)))", v.S, v.S, al.S, v.S))
	case *types.Basic:
		if u.Info()&types.IsInteger != 0 && v.Sort == SInt {
			lo, hi, ok := intRange(u)
			if ok {
				st.Assume(T(SBool, "(and (<= %s %s) (<= %s %s))", lo, v.S, v.S, hi))
			}
		}
	case *types.Struct:
		si := c.Reg.StructInfo(t)
		for i, acc := range si.fields {
			ft := si.ftypes[i]
			switch ft.Underlying().(type) {
			case *types.Slice, *types.Pointer, *types.Map, *types.Chan, *types.Struct:
				c.AssumeWF(st, T(c.Reg.SortOf(ft), "(%s %s)", acc, v.S), ft)
			}
		}
	}
}

func intRange(b *types.Basic) (string, string, bool) {
	switch b.Kind() {
	case types.Int, types.Int64, types.UntypedInt:
		return "(- 9223372036854775808)", "9223372036854775807", true
	case types.Int32, types.UntypedRune:
		return "(- 2147483648)", "2147483647", true
	case types.Int16:
		return "(- 32768)", "32767", true
	case types.Int8:
		return "(- 128)", "127", true
	case types.Uint, types.Uint64, types.Uintptr:
		return "0", "18446744073709551615", true
	case types.Uint32:
		return "0", "4294967295", true
	case types.Uint16:
		return "0", "65535", true
	case types.Uint8:
		return "0", "255", true
	}
	return "", "", false
}

// ---------------------------------------------------------------------------
// Locations
// ---------------------------------------------------------------------------

// rootLoad reads the root of a location.
func (c *Ctx) rootLoad(st *State, l *Loc, entry bool) Term {
	get := func(fam string, sort Sort) Term {
		if entry {
			return c.EntryArr(st, fam, sort)
		}
		return c.Arr(st, fam, sort)
	}
	switch l.Kind {
	case LocField:
		fam, sort := c.famField(l.Struct, l.Field)
		return Select(get(fam, sort), l.Base)
	case LocCell:
		fam, sort := c.famCell(l.Root)
		return Select(get(fam, sort), l.Base)
	case LocElem:
		fam, sort := c.famElem(l.Root)
		return Select(Select(get(fam, sort), l.Base), l.Idx)
	case LocGlobal:
		fam, sort := c.famGlobal(l.Global)
		return get(fam, sort)
	}
	panic("bad loc")
}

func (c *Ctx) rootStore(st *State, l *Loc, v Term) {
	switch l.Kind {
	case LocField:
		fam, sort := c.famField(l.Struct, l.Field)
		c.SetArr(st, fam, Store(c.Arr(st, fam, sort), l.Base, v))
	case LocCell:
		fam, sort := c.famCell(l.Root)
		c.SetArr(st, fam, Store(c.Arr(st, fam, sort), l.Base, v))
	case LocElem:
		fam, sort := c.famElem(l.Root)
		a := c.Arr(st, fam, sort)
		c.SetArr(st, fam, Store(a, l.Base, Store(Select(a, l.Base), l.Idx, v)))
	case LocGlobal:
		fam, sort := c.famGlobal(l.Global)
		c.Arr(st, fam, sort)
		if len(v.S) < 40 {
			st.arrays[fam] = v
			return
		}
		name := c.Reg.Fresh("g." + l.Global.Name())
		t := st.Declare(name, sort)
		st.Assume(Eq(t, v))
		st.arrays[fam] = t
	}
}

// LoadLoc reads a location (descending the by-value struct path).
func (c *Ctx) LoadLoc(st *State, l *Loc, entry bool) Term {
	v := c.rootLoad(st, l, entry)
	t := l.Root
	for _, fi := range l.Path {
		si := c.Reg.StructInfo(t)
		v = T(c.Reg.SortOf(si.ftypes[fi]), "(%s %s)", si.fields[fi], v.S)
		t = si.ftypes[fi]
	}
	return v
}

// StoreLoc writes a location.
func (c *Ctx) StoreLoc(st *State, l *Loc, v Term) {
	if len(l.Path) == 0 {
		c.rootStore(st, l, v)
		return
	}
	root := c.Name(st, "root", c.rootLoad(st, l, false))
	nv := c.updatePath(root, l.Root, l.Path, v)
	c.rootStore(st, l, nv)
}

func (c *Ctx) updatePath(cur Term, t types.Type, path []int, v Term) Term {
	if len(path) == 0 {
		return v
	}
	si := c.Reg.StructInfo(t)
	parts := make([]string, len(si.fields))
	for i, acc := range si.fields {
		fv := T(c.Reg.SortOf(si.ftypes[i]), "(%s %s)", acc, cur.S)
		if i == path[0] {
			fv = c.updatePath(fv, si.ftypes[i], path[1:], v)
		}
		parts[i] = fv.S
	}
	return T(si.sort, "(%s %s)", si.ctor, strings.Join(parts, " "))
}

// LowerLoc turns a location into a pointer term.
func (c *Ctx) LowerLoc(st *State, l *Loc) Term {
	var t Term
	switch l.Kind {
	case LocCell:
		if len(l.Path) == 0 {
			return l.Base
		}
		t = T(SInt, "(addr_cellpath_%s %s)", pathStr(l.Path), l.Base.S)
		c.Reg.DeclFun("addr_cellpath_"+pathStr(l.Path), []Sort{SInt}, SInt)
	case LocField:
		fam, _ := c.famField(l.Struct, l.Field)
		fn := "addr_" + sanitize(famShort(fam)) + pathStr(l.Path)
		c.Reg.DeclFun(fn, []Sort{SInt}, SInt)
		t = T(SInt, "(%s %s)", fn, l.Base.S)
	case LocElem:
		fn := "addr_elem" + pathStr(l.Path)
		c.Reg.DeclFun(fn, []Sort{SInt, SInt}, SInt)
		t = T(SInt, "(%s %s %s)", fn, l.Base.S, l.Idx.S)
	case LocGlobal:
		name := "addr_global_" + sanitize(l.Global.Pkg.Pkg.Path()+"."+l.Global.Name()) + pathStr(l.Path)
		c.Reg.Declare(name, fmt.Sprintf("(declare-const %s Int)", name))
		t = Term{name, SInt}
	}
	st.locs[t.S] = l
	if !c.addrPos[t.S] {
		// interior addresses are non-nil
		st.Assume(T(SBool, "(> %s 0)", t.S))
	}
	return t
}

func pathStr(p []int) string {
	if len(p) == 0 {
		return ""
	}
	s := ""
	for _, i := range p {
		s += fmt.Sprintf("_%d", i)
	}
	return s
}

// AsLoc interprets a pointer value as a location.
func (c *Ctx) AsLoc(st *State, v Value, ptrType types.Type) *Loc {
	switch x := v.(type) {
	case *Loc:
		return x
	case Term:
		if l, ok := st.locs[x.S]; ok {
			return l
		}
		elem := deref(ptrType)
		if _, isStruct := elem.Underlying().(*types.Struct); isStruct {
			// pointer to a whole struct object: no single root; callers handle it
			return nil
		}
		if a, isArr := elem.Underlying().(*types.Array); isArr {
			_ = a
			return nil
		}
		return &Loc{Kind: LocCell, Base: x, Type: elem, Root: elem}
	}
	return nil
}

// LoadPtr implements *p for a pointer value of type ptrType.
func (c *Ctx) LoadPtr(st *State, v Value, ptrType types.Type, entry bool) Term {
	elem := deref(ptrType)
	if l := c.AsLoc(st, v, ptrType); l != nil {
		return c.LoadLoc(st, l, entry)
	}
	p := v.(Term)
	if _, ok := elem.Underlying().(*types.Struct); ok {
		si := c.Reg.StructInfo(elem)
		if len(si.fields) == 0 {
			return Term{si.ctor, si.sort}
		}
		parts := make([]string, len(si.fields))
		for i := range si.fields {
			fl := &Loc{Kind: LocField, Base: p, Struct: elem, Field: i, Type: si.ftypes[i], Root: si.ftypes[i]}
			parts[i] = c.LoadLoc(st, fl, entry).S
		}
		return T(si.sort, "(%s %s)", si.ctor, strings.Join(parts, " "))
	}
	if a, ok := elem.Underlying().(*types.Array); ok {
		fam, sort := c.famElem(a.Elem())
		if entry {
			return Select(c.EntryArr(st, fam, sort), p)
		}
		return Select(c.Arr(st, fam, sort), p)
	}
	panic("LoadPtr: unsupported pointer")
}

// StorePtr implements *p = v.
func (c *Ctx) StorePtr(st *State, pv Value, ptrType types.Type, v Term) {
	elem := deref(ptrType)
	if l := c.AsLoc(st, pv, ptrType); l != nil {
		c.StoreLoc(st, l, v)
		return
	}
	p := pv.(Term)
	if _, ok := elem.Underlying().(*types.Struct); ok {
		si := c.Reg.StructInfo(elem)
		v = c.Name(st, "sv", v)
		for i, acc := range si.fields {
			fl := &Loc{Kind: LocField, Base: p, Struct: elem, Field: i, Type: si.ftypes[i], Root: si.ftypes[i]}
			c.StoreLoc(st, fl, T(c.Reg.SortOf(si.ftypes[i]), "(%s %s)", acc, v.S))
		}
		return
	}
	if a, ok := elem.Underlying().(*types.Array); ok {
		fam, sort := c.famElem(a.Elem())
		c.SetArr(st, fam, Store(c.Arr(st, fam, sort), p, v))
		return
	}
	panic("StorePtr: unsupported pointer")
}

// ---------------------------------------------------------------------------
// Interfaces
// ---------------------------------------------------------------------------

func (c *Ctx) Box(st *State, v Term, t types.Type) Term {
	if _, isIface := t.Underlying().(*types.Interface); isIface {
		return v
	}
	bn, un, id := c.Reg.boxName(t)
	b := T(SAny, "(%s %s)", bn, v.S)
	b = c.NameAlways(st, "any", b)
	st.Assume(T(SBool, "(= (tagof %s) %d)", b.S, id))
	st.Assume(T(SBool, "(= (%s %s) %s)", un, b.S, v.S))
	st.boxed[b.S] = t
	return b
}

func (c *Ctx) NameAlways(st *State, prefix string, t Term) Term {
	if len(st.qbinders) > 0 {
		return t
	}
	n := st.Declare(c.Reg.Fresh(prefix), t.Sort)
	st.Assume(Eq(n, t))
	return n
}

func (c *Ctx) Unbox(st *State, v Term, t types.Type) Term {
	bn, un, id := c.Reg.boxName(t)
	if len(st.qbinders) > 0 {
		// under a binder no instance can be stated for v: state surjectivity once for the type
		c.Reg.Axiom(fmt.Sprintf("(assert (forall ((a!%d Any)) (! (=> (= (tagof a!%d) %d) (= (%s (%s a!%d)) a!%d)) :pattern ((%s a!%d)))))", id, id, id, bn, un, id, id, un, id))
		return T(c.Reg.SortOf(t), "(%s %s)", un, v.S)
	}
	// surjectivity instance: a value with tag T is the box of its payload
	st.Assume(T(SBool, "(=> (= (tagof %s) %d) (= %s (%s (%s %s))))", v.S, id, v.S, bn, un, v.S))
	r := T(c.Reg.SortOf(t), "(%s %s)", un, v.S)
	// a reference held inside an interface value refers to an object that exists
	if r.Sort == SInt {
		switch t.Underlying().(type) {
		case *types.Pointer, *types.Map, *types.Chan:
			al := c.Arr(st, famAlloc, ArraySort(SInt, SBool))
			st.Assume(T(SBool, "(=> (= (tagof %s) %d) (and (>= %s 0) (or (= %s 0) (select %s %s))))", v.S, id, r.S, r.S, al.S, r.S))
		}
	}
	return r
}

func (c *Ctx) TagIs(v Term, t types.Type) Term {
	_, _, id := c.Reg.boxName(t)
	return T(SBool, "(= (tagof %s) %d)", v.S, id)
}
