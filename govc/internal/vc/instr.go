package vc

import (
	"fmt"
	"go/ast"
	"go/constant"
	"go/token"
	"go/types"
	"strings"

	"golang.org/x/tools/go/ssa"
)

func one(st *State, fr *Frame) []cont { return []cont{{st, fr}} }

// step executes one non-terminator instruction.
func (c *Ctx) step(st *State, fr *Frame, ins ssa.Instruction) []cont {
	switch x := ins.(type) {
	case *ssa.DebugRef:
		if fr.vars == nil {
			fr.vars = map[string]debugVar{}
		}
		if obj := x.Object(); obj != nil {
			if _, isVar := obj.(*types.Var); isVar {
				// the reference at the defining occurrence of `v := e` reports the value before
				// the assignment; the right-hand side is picked up below instead
				if x.Expr != nil && x.Expr.Pos() == obj.Pos() {
					if _, isConst := x.X.(*ssa.Const); isConst && !x.IsAddr {
						return one(st, fr)
					}
				}
				fr.vars[obj.Name()] = debugVar{val: c.reg(fr, x.X, st), isAddr: x.IsAddr, typ: x.X.Type()}
			}
		} else if x.Expr != nil && !x.IsAddr {
			if name, ok := c.assignedVars(fr.fn)[x.Expr]; ok {
				fr.vars[name] = debugVar{val: c.reg(fr, x.X, st), typ: x.X.Type()}
			}
		}
		return one(st, fr)
	case *ssa.Alloc:
		v := c.doAlloc(st, deref(x.Type()), x.Comment)
		if t, ok := v.(Term); ok && !x.Heap {
			st.locals = append(st.locals, t.S)
		}
		fr.regs[x] = v
		return one(st, fr)
	case *ssa.BinOp:
		fr.regs[x] = c.doBinOp(st, fr, x)
		return one(st, fr)
	case *ssa.UnOp:
		return c.doUnOp(st, fr, x)
	case *ssa.ChangeType:
		fr.regs[x] = c.reg(fr, x.X, st)
		return one(st, fr)
	case *ssa.Convert:
		fr.regs[x] = c.doConvert(st, fr, x)
		return one(st, fr)
	case *ssa.MultiConvert:
		fr.regs[x] = c.FreshConst(st, "mconv", c.Reg.SortOf(x.Type()))
		return one(st, fr)
	case *ssa.ChangeInterface:
		fr.regs[x] = c.reg(fr, x.X, st)
		return one(st, fr)
	case *ssa.MakeInterface:
		v := c.term(fr, x.X, st)
		fr.regs[x] = c.Box(st, v, x.X.Type())
		return one(st, fr)
	case *ssa.TypeAssert:
		return c.doTypeAssert(st, fr, x)
	case *ssa.MakeClosure:
		bs := make([]Value, len(x.Bindings))
		for i, b := range x.Bindings {
			bs[i] = c.reg(fr, b, st)
		}
		fr.regs[x] = c.funcValue(st, x.Fn.(*ssa.Function), bs)
		c.checkCaptures(st, fr, x, x.Fn.(*ssa.Function), bs)
		return one(st, fr)
	case *ssa.MakeMap:
		m := c.NewRef(st, "map")
		mt := x.Type().Underlying().(*types.Map)
		dfam, dsort := c.famMapDom(mt)
		c.SetArr(st, dfam, Store(c.Arr(st, dfam, dsort), m, ConstArray(arrayElem(dsort), False)))
		c.SetArr(st, famMapLen, Store(c.Arr(st, famMapLen, ArraySort(SInt, SInt)), m, IntLit(0)))
		fr.regs[x] = m
		return one(st, fr)
	case *ssa.MakeChan:
		ch := c.NewRef(st, "chan")
		size := c.term(fr, x.Size, st)
		c.Oblige(st, fr, ins, "nopanic", "size", T(SBool, "(>= %s 0)", size.S), "makechan: size >= 0")
		c.SetArr(st, famChCap, Store(c.Arr(st, famChCap, ArraySort(SInt, SInt)), ch, size))
		c.SetArr(st, famChLen, Store(c.Arr(st, famChLen, ArraySort(SInt, SInt)), ch, IntLit(0)))
		c.SetArr(st, famChClosed, Store(c.Arr(st, famChClosed, ArraySort(SInt, SBool)), ch, False))
		fr.regs[x] = ch
		return one(st, fr)
	case *ssa.MakeSlice:
		ln := c.term(fr, x.Len, st)
		cp := c.term(fr, x.Cap, st)
		c.Oblige(st, fr, ins, "nopanic", "len", T(SBool, "(and (>= %s 0) (<= %s %s))", ln.S, ln.S, cp.S), "makeslice: 0 <= len <= cap")
		arr := c.NewRef(st, "arr")
		el := x.Type().Underlying().(*types.Slice).Elem()
		fam, sort := c.famElem(el)
		c.SetArr(st, fam, Store(c.Arr(st, fam, sort), arr, c.Reg.ZeroArray(arrayElem(sort), c.Reg.Zero(el))))
		fr.regs[x] = c.Name(st, "slice", T(SSlice, "(mk_slice %s 0 %s %s)", arr.S, ln.S, cp.S))
		return one(st, fr)
	case *ssa.Slice:
		fr.regs[x] = c.doSlice(st, fr, x)
		return one(st, fr)
	case *ssa.FieldAddr:
		fr.regs[x] = c.doFieldAddr(st, fr, x)
		return one(st, fr)
	case *ssa.Field:
		v := c.term(fr, x.X, st)
		si := c.Reg.StructInfo(x.X.Type())
		fr.regs[x] = T(c.Reg.SortOf(si.ftypes[x.Field]), "(%s %s)", si.fields[x.Field], v.S)
		return one(st, fr)
	case *ssa.IndexAddr:
		fr.regs[x] = c.doIndexAddr(st, fr, x)
		return one(st, fr)
	case *ssa.Index:
		fr.regs[x] = c.doIndex(st, fr, x)
		return one(st, fr)
	case *ssa.Lookup:
		fr.regs[x] = c.doLookup(st, fr, x)
		return one(st, fr)
	case *ssa.MapUpdate:
		c.doMapUpdate(st, fr, x)
		return one(st, fr)
	case *ssa.Store:
		c.doStore(st, fr, x)
		return one(st, fr)
	case *ssa.Extract:
		tup := c.reg(fr, x.Tuple, st).(Tuple)
		fr.regs[x] = tup[x.Index]
		return one(st, fr)
	case *ssa.Range:
		fr.regs[x] = c.doRange(st, fr, x)
		return one(st, fr)
	case *ssa.Next:
		fr.regs[x] = c.doNext(st, fr, x)
		return one(st, fr)
	case *ssa.Call:
		return c.doCall(st, fr, x, &x.Call, x)
	case *ssa.Defer:
		d := deferred{call: &x.Call, instr: x}
		if !x.Call.IsInvoke() {
			if _, isB := x.Call.Value.(*ssa.Builtin); !isB {
				d.fnVal = c.reg(fr, x.Call.Value, st)
			}
		} else {
			d.fnVal = c.reg(fr, x.Call.Value, st)
		}
		for _, a := range x.Call.Args {
			d.args = append(d.args, c.reg(fr, a, st))
		}
		fr.defers = append(fr.defers, d)
		return one(st, fr)
	case *ssa.RunDefers:
		return c.runDefers(st, fr)
	case *ssa.Go:
		return c.doGo(st, fr, x)
	case *ssa.Send:
		return c.doSend(st, fr, x)
	case *ssa.Select:
		return c.doSelect(st, fr, x)
	case *ssa.SliceToArrayPointer:
		fr.regs[x] = c.FreshConst(st, "s2a", SInt)
		return one(st, fr)
	}
	c.cur.aborted = fmt.Sprintf("unsupported instruction %T in %s", ins, fr.fn)
	return nil
}

func (c *Ctx) doAlloc(st *State, t types.Type, comment string) Value {
	r := c.NewRef(st, "new")
	switch u := t.Underlying().(type) {
	case *types.Struct:
		si := c.Reg.StructInfo(t)
		for i := range si.fields {
			fl := &Loc{Kind: LocField, Base: r, Struct: t, Field: i, Type: si.ftypes[i], Root: si.ftypes[i]}
			c.StoreLoc(st, fl, c.Reg.Zero(si.ftypes[i]))
		}
		st.freshObjs[r.S] = true
		return r
	case *types.Array:
		fam, sort := c.famElem(u.Elem())
		c.SetArr(st, fam, Store(c.Arr(st, fam, sort), r, c.Reg.ZeroArray(arrayElem(sort), c.Reg.Zero(u.Elem()))))
		return r
	}
	fam, sort := c.famCell(t)
	c.SetArr(st, fam, Store(c.Arr(st, fam, sort), r, c.Reg.Zero(t)))
	return r
}

func isFloat(t types.Type) bool {
	b, ok := t.Underlying().(*types.Basic)
	return ok && b.Info()&types.IsFloat != 0
}

func isString(t types.Type) bool {
	b, ok := t.Underlying().(*types.Basic)
	return ok && b.Info()&types.IsString != 0
}

func isInteger(t types.Type) bool {
	b, ok := t.Underlying().(*types.Basic)
	return ok && b.Info()&types.IsInteger != 0
}

func isUnsigned(t types.Type) bool {
	b, ok := t.Underlying().(*types.Basic)
	return ok && b.Info()&types.IsUnsigned != 0
}

func (c *Ctx) doBinOp(st *State, fr *Frame, x *ssa.BinOp) Value {
	a := c.term(fr, x.X, st)
	b := c.term(fr, x.Y, st)
	t := x.X.Type()
	res := c.binop(st, fr, x, x.Op, a, b, t, x.Type())
	return c.Name(st, "t."+x.Name(), res)
}

func (c *Ctx) binop(st *State, fr *Frame, ins ssa.Instruction, op token.Token, a, b Term, t types.Type, rt types.Type) Term {
	switch op {
	case token.EQL:
		return c.eqTerm(a, b, t)
	case token.NEQ:
		return Not(c.eqTerm(a, b, t))
	}
	if isFloat(t) {
		switch op {
		case token.ADD:
			return T(a.Sort, "(fp.add RNE %s %s)", a.S, b.S)
		case token.SUB:
			return T(a.Sort, "(fp.sub RNE %s %s)", a.S, b.S)
		case token.MUL:
			return T(a.Sort, "(fp.mul RNE %s %s)", a.S, b.S)
		case token.QUO:
			return T(a.Sort, "(fp.div RNE %s %s)", a.S, b.S)
		case token.LSS:
			return T(SBool, "(fp.lt %s %s)", a.S, b.S)
		case token.LEQ:
			return T(SBool, "(fp.leq %s %s)", a.S, b.S)
		case token.GTR:
			return T(SBool, "(fp.gt %s %s)", a.S, b.S)
		case token.GEQ:
			return T(SBool, "(fp.geq %s %s)", a.S, b.S)
		}
	}
	if isString(t) {
		switch op {
		case token.ADD:
			return T(SString, "(str.++ %s %s)", a.S, b.S)
		case token.LSS:
			return T(SBool, "(str.< %s %s)", a.S, b.S)
		case token.LEQ:
			return T(SBool, "(str.<= %s %s)", a.S, b.S)
		case token.GTR:
			return T(SBool, "(str.< %s %s)", b.S, a.S)
		case token.GEQ:
			return T(SBool, "(str.<= %s %s)", b.S, a.S)
		}
	}
	if a.Sort == SBool {
		switch op {
		case token.AND, token.LAND:
			return And(a, b)
		case token.OR, token.LOR:
			return Or(a, b)
		case token.XOR:
			return T(SBool, "(xor %s %s)", a.S, b.S)
		}
	}
	if a.Sort == SBV64 {
		uns := isUnsigned(t)
		pick := func(s, u string) string {
			if uns {
				return u
			}
			return s
		}
		switch op {
		case token.ADD:
			return T(SBV64, "(bvadd %s %s)", a.S, b.S)
		case token.SUB:
			return T(SBV64, "(bvsub %s %s)", a.S, b.S)
		case token.MUL:
			return T(SBV64, "(bvmul %s %s)", a.S, b.S)
		case token.QUO, token.REM:
			if ins != nil {
				c.Oblige(st, fr, ins, "nopanic", "", Not(Eq(b, Term{"(_ bv0 64)", SBV64})), "division by zero")
			}
			if op == token.QUO {
				return T(SBV64, "(%s %s %s)", pick("bvsdiv", "bvudiv"), a.S, b.S)
			}
			return T(SBV64, "(%s %s %s)", pick("bvsrem", "bvurem"), a.S, b.S)
		case token.LSS:
			return T(SBool, "(%s %s %s)", pick("bvslt", "bvult"), a.S, b.S)
		case token.LEQ:
			return T(SBool, "(%s %s %s)", pick("bvsle", "bvule"), a.S, b.S)
		case token.GTR:
			return T(SBool, "(%s %s %s)", pick("bvsgt", "bvugt"), a.S, b.S)
		case token.GEQ:
			return T(SBool, "(%s %s %s)", pick("bvsge", "bvuge"), a.S, b.S)
		case token.AND:
			return T(SBV64, "(bvand %s %s)", a.S, b.S)
		case token.OR:
			return T(SBV64, "(bvor %s %s)", a.S, b.S)
		case token.XOR:
			return T(SBV64, "(bvxor %s %s)", a.S, b.S)
		case token.SHL:
			return T(SBV64, "(bvshl %s %s)", a.S, b.S)
		case token.SHR:
			return T(SBV64, "(%s %s %s)", pick("bvashr", "bvlshr"), a.S, b.S)
		}
	}
	if a.Sort == SInt {
		switch op {
		case token.ADD, token.SUB, token.MUL:
			sym := map[token.Token]string{token.ADD: "+", token.SUB: "-", token.MUL: "*"}[op]
			r := T(SInt, "(%s %s %s)", sym, a.S, b.S)
			if c.overflowMode(fr) && ins != nil {
				if bt, ok := rt.Underlying().(*types.Basic); ok {
					if lo, hi, ok := intRange(bt); ok {
						c.Oblige(st, fr, ins, "overflow", "", T(SBool, "(and (<= %s %s) (<= %s %s))", lo, r.S, r.S, hi), fmt.Sprintf("%s does not overflow %s", sym, bt.Name()))
					}
				}
			}
			return r
		case token.QUO, token.REM:
			if ins != nil {
				c.Oblige(st, fr, ins, "nopanic", "", Not(Eq(b, IntLit(0))), "division by zero")
			}
			q := T(SInt, "(ite (>= %s 0) (ite (> %s 0) (div %s %s) (- (div %s (- %s)))) (ite (> %s 0) (- (div (- %s) %s)) (div (- %s) (- %s))))",
				a.S, b.S, a.S, b.S, a.S, b.S, b.S, a.S, b.S, a.S, b.S)
			if op == token.QUO {
				return q
			}
			return T(SInt, "(- %s (* %s %s))", a.S, b.S, q.S)
		case token.LSS:
			return T(SBool, "(< %s %s)", a.S, b.S)
		case token.LEQ:
			return T(SBool, "(<= %s %s)", a.S, b.S)
		case token.GTR:
			return T(SBool, "(> %s %s)", a.S, b.S)
		case token.GEQ:
			return T(SBool, "(>= %s %s)", a.S, b.S)
		case token.SHL, token.SHR, token.AND, token.OR, token.XOR, token.AND_NOT:
			fn := "bitop_" + map[token.Token]string{token.SHL: "shl", token.SHR: "shr", token.AND: "and", token.OR: "or", token.XOR: "xor", token.AND_NOT: "andnot"}[op]
			c.Reg.DeclFun(fn, []Sort{SInt, SInt}, SInt)
			return T(SInt, "(%s %s %s)", fn, a.S, b.S)
		}
	}
	c.Notef("unsupported binop %s on %s", op, t)
	return c.FreshConst(st, "binop", c.Reg.SortOf(rt))
}

func (c *Ctx) overflowMode(fr *Frame) bool {
	if c.cur == nil || c.cur.contract == nil {
		return false
	}
	return c.cur.contract.Opts["overflow"] != ""
}

func (c *Ctx) eqTerm(a, b Term, t types.Type) Term {
	if a.Sort == SF64 || a.Sort == SF32 {
		return T(SBool, "(fp.eq %s %s)", a.S, b.S)
	}
	if a.Sort != b.Sort {
		// comparison of an interface with a concrete value is made by boxing in SSA; sorts must agree
		panic(fmt.Sprintf("eq of different sorts %s / %s", a.Sort, b.Sort))
	}
	return Eq(a, b)
}

func (c *Ctx) doUnOp(st *State, fr *Frame, x *ssa.UnOp) []cont {
	switch x.Op {
	case token.NOT:
		fr.regs[x] = Not(c.term(fr, x.X, st))
	case token.SUB:
		v := c.term(fr, x.X, st)
		if isFloat(x.X.Type()) {
			fr.regs[x] = T(v.Sort, "(fp.neg %s)", v.S)
		} else {
			fr.regs[x] = T(SInt, "(- %s)", v.S)
		}
	case token.XOR:
		c.Reg.DeclFun("bitop_not", []Sort{SInt}, SInt)
		fr.regs[x] = T(SInt, "(bitop_not %s)", c.term(fr, x.X, st).S)
	case token.MUL:
		fr.regs[x] = c.doLoad(st, fr, x)
	case token.ARROW:
		return c.doRecv(st, fr, x)
	default:
		c.cur.aborted = "unsupported unop " + x.Op.String()
		return nil
	}
	return one(st, fr)
}

func (c *Ctx) doLoad(st *State, fr *Frame, x *ssa.UnOp) Value {
	pv := c.reg(fr, x.X, st)
	if p, ok := pv.(Term); ok {
		if _, lowered := st.locs[p.S]; !lowered {
			c.Oblige(st, fr, x, "nopanic", "nil", Not(Eq(p, IntLit(0))), "nil pointer dereference")
		}
	}
	c.checkAccess(st, fr, x, pv, false)
	v := c.LoadPtr(st, pv, x.X.Type(), false)
	v = c.Name(st, "ld."+x.Name(), v)
	c.AssumeWF(st, v, x.Type())
	c.noteLoaded(st, pv, v)
	return v
}

// noteLoaded remembers which object a loaded lock pointer belongs to.
func (c *Ctx) noteLoaded(st *State, pv Value, v Term) {
	l, ok := pv.(*Loc)
	if !ok || l.Kind != LocField || len(l.Path) != 0 {
		return
	}
	si := c.Reg.StructInfo(l.Struct)
	st.owners[v.S] = ownerInfo{Struct: l.Struct, Obj: l.Base, Field: si.st.Field(l.Field).Name()}
}

func (c *Ctx) doStore(st *State, fr *Frame, x *ssa.Store) {
	pv := c.reg(fr, x.Addr, st)
	if p, ok := pv.(Term); ok {
		if _, lowered := st.locs[p.S]; !lowered {
			c.Oblige(st, fr, x, "nopanic", "nil", Not(Eq(p, IntLit(0))), "nil pointer dereference")
		}
	}
	c.checkAccess(st, fr, x, pv, true)
	if l, ok := pv.(*Loc); ok && l.Kind == LocGlobal && !c.cur.isInit && x.Parent().Name() != "init" {
		c.emit(st, fr, x, "access", "global-write", False, "write to package-level variable "+l.Global.Name()+" outside of package initialisation", false)
	}
	v := c.term(fr, x.Val, st)
	c.StorePtr(st, pv, x.Addr.Type(), v)
}

func (c *Ctx) doFieldAddr(st *State, fr *Frame, x *ssa.FieldAddr) Value {
	base := c.reg(fr, x.X, st)
	stT := deref(x.X.Type())
	si := c.Reg.StructInfo(stT)
	ft := si.ftypes[x.Field]
	switch b := base.(type) {
	case *Loc:
		// field of a by-value struct stored at location b
		nl := *b
		nl.Path = append(append([]int(nil), b.Path...), x.Field)
		nl.Type = ft
		return &nl
	case Term:
		if l, ok := st.locs[b.S]; ok {
			nl := *l
			nl.Path = append(append([]int(nil), l.Path...), x.Field)
			nl.Type = ft
			return &nl
		}
		c.Oblige(st, fr, x, "nopanic", "nil", Not(Eq(b, IntLit(0))), "nil pointer dereference (field "+si.st.Field(x.Field).Name()+")")
		return &Loc{Kind: LocField, Base: b, Struct: stT, Field: x.Field, Type: ft, Root: ft}
	}
	panic("FieldAddr on non-pointer")
}

func (c *Ctx) doIndexAddr(st *State, fr *Frame, x *ssa.IndexAddr) Value {
	idx := c.term(fr, x.Index, st)
	switch u := x.X.Type().Underlying().(type) {
	case *types.Slice:
		s := c.term(fr, x.X, st)
		c.Oblige(st, fr, x, "nopanic", "bounds", T(SBool, "(and (<= 0 %s) (< %s (sl_len %s)))", idx.S, idx.S, s.S), "index out of range")
		return &Loc{Kind: LocElem, Base: T(SInt, "(sl_arr %s)", s.S), Idx: T(SInt, "(sidx %s %s)", s.S, idx.S), Type: u.Elem(), Root: u.Elem()}
	case *types.Pointer:
		arr := u.Elem().Underlying().(*types.Array)
		p := c.term(fr, x.X, st)
		c.Oblige(st, fr, x, "nopanic", "bounds", T(SBool, "(and (<= 0 %s) (< %s %d))", idx.S, idx.S, arr.Len()), "index out of range")
		return &Loc{Kind: LocElem, Base: p, Idx: idx, Type: arr.Elem(), Root: arr.Elem()}
	}
	panic("IndexAddr on unsupported type")
}

func (c *Ctx) doIndex(st *State, fr *Frame, x *ssa.Index) Value {
	idx := c.term(fr, x.Index, st)
	v := c.term(fr, x.X, st)
	switch u := x.X.Type().Underlying().(type) {
	case *types.Array:
		c.Oblige(st, fr, x, "nopanic", "bounds", T(SBool, "(and (<= 0 %s) (< %s %d))", idx.S, idx.S, u.Len()), "index out of range")
		return Select(v, idx)
	case *types.Basic: // string
		c.Oblige(st, fr, x, "nopanic", "bounds", T(SBool, "(and (<= 0 %s) (< %s (str.len %s)))", idx.S, idx.S, v.S), "string index out of range")
		return T(SInt, "(str.to_code (str.at %s %s))", v.S, idx.S)
	}
	panic("Index on unsupported type")
}

func (c *Ctx) doLookup(st *State, fr *Frame, x *ssa.Lookup) Value {
	k := c.term(fr, x.Index, st)
	m := c.term(fr, x.X, st)
	if mt, ok := x.X.Type().Underlying().(*types.Map); ok {
		c.checkMapAccess(st, fr, x, x.X, m, false)
		val, ok2 := c.mapLookup(st, m, k, mt, false)
		val = c.Name(st, "mv", val)
		c.AssumeWF(st, val, mt.Elem())
		if x.CommaOk {
			return Tuple{val, ok2}
		}
		return val
	}
	// string index
	c.Oblige(st, fr, x, "nopanic", "bounds", T(SBool, "(and (<= 0 %s) (< %s (str.len %s)))", k.S, k.S, m.S), "string index out of range")
	return T(SInt, "(str.to_code (str.at %s %s))", m.S, k.S)
}

func (c *Ctx) mapLookup(st *State, m, k Term, mt *types.Map, entry bool) (Term, Term) {
	dfam, dsort := c.famMapDom(mt)
	vfam, vsort := c.famMapVal(mt)
	var d, v Term
	if entry {
		d, v = c.EntryArr(st, dfam, dsort), c.EntryArr(st, vfam, vsort)
	} else {
		d, v = c.Arr(st, dfam, dsort), c.Arr(st, vfam, vsort)
	}
	in := Select(Select(d, m), k)
	val := Ite(in, Select(Select(v, m), k), c.Reg.Zero(mt.Elem()))
	return val, in
}

func (c *Ctx) mapLen(st *State, m Term, entry bool) Term {
	var l Term
	if entry {
		l = c.EntryArr(st, famMapLen, ArraySort(SInt, SInt))
	} else {
		l = c.Arr(st, famMapLen, ArraySort(SInt, SInt))
	}
	r := Select(l, m)
	if len(st.qbinders) == 0 {
		st.Assume(T(SBool, "(>= %s 0)", r.S))
	}
	return r
}

func (c *Ctx) doMapUpdate(st *State, fr *Frame, x *ssa.MapUpdate) {
	m := c.term(fr, x.Map, st)
	k := c.term(fr, x.Key, st)
	v := c.term(fr, x.Value, st)
	mt := x.Map.Type().Underlying().(*types.Map)
	c.Oblige(st, fr, x, "nopanic", "nilmap", Not(Eq(m, IntLit(0))), "assignment to entry in nil map")
	if un, ok := x.Map.(*ssa.UnOp); ok && c.cur != nil && !c.cur.isInit && x.Parent().Name() != "init" {
		if g, ok := un.X.(*ssa.Global); ok {
			c.emit(st, fr, x, "access", "global-write", False, "write to an entry of the package-level map "+g.Name()+" outside of package initialisation", false)
		}
	}
	c.checkMapAccess(st, fr, x, x.Map, m, true)
	c.mapStore(st, m, k, v, mt)
}

func (c *Ctx) mapStore(st *State, m, k, v Term, mt *types.Map) {
	dfam, dsort := c.famMapDom(mt)
	vfam, vsort := c.famMapVal(mt)
	d := c.Arr(st, dfam, dsort)
	va := c.Arr(st, vfam, vsort)
	ml := c.Arr(st, famMapLen, ArraySort(SInt, SInt))
	was := c.Name(st, "was", Select(Select(d, m), k))
	c.SetArr(st, famMapLen, Store(ml, m, Ite(was, Select(ml, m), T(SInt, "(+ %s 1)", Select(ml, m).S))))
	c.SetArr(st, dfam, Store(d, m, Store(Select(d, m), k, True)))
	c.SetArr(st, vfam, Store(va, m, Store(Select(va, m), k, v)))
}

func (c *Ctx) mapDelete(st *State, m, k Term, mt *types.Map) {
	dfam, dsort := c.famMapDom(mt)
	d := c.Arr(st, dfam, dsort)
	ml := c.Arr(st, famMapLen, ArraySort(SInt, SInt))
	was := c.Name(st, "was", Select(Select(d, m), k))
	// delete on a nil map is a no-op
	nz := Not(Eq(m, IntLit(0)))
	c.SetArr(st, famMapLen, Store(ml, m, Ite(And(was, nz), T(SInt, "(- %s 1)", Select(ml, m).S), Select(ml, m))))
	c.SetArr(st, dfam, Ite(nz, Store(d, m, Store(Select(d, m), k, False)), d))
}

func (c *Ctx) doSlice(st *State, fr *Frame, x *ssa.Slice) Value {
	var lo, hi, mx Term
	hasHi, hasMax := x.High != nil, x.Max != nil
	lo = IntLit(0)
	if x.Low != nil {
		lo = c.term(fr, x.Low, st)
	}
	if hasHi {
		hi = c.term(fr, x.High, st)
	}
	if hasMax {
		mx = c.term(fr, x.Max, st)
	}
	switch u := x.X.Type().Underlying().(type) {
	case *types.Slice:
		s := c.term(fr, x.X, st)
		if !hasHi {
			hi = T(SInt, "(sl_len %s)", s.S)
		}
		capT := T(SInt, "(sl_cap %s)", s.S)
		if !hasMax {
			mx = capT
		}
		c.Oblige(st, fr, x, "nopanic", "bounds", T(SBool, "(and (<= 0 %s) (<= %s %s) (<= %s %s) (<= %s %s))", lo.S, lo.S, hi.S, hi.S, mx.S, mx.S, capT.S), "slice bounds out of range")
		return c.Name(st, "slice", T(SSlice, "(mk_slice (sl_arr %s) (+ (sl_off %s) %s) (- %s %s) (- %s %s))", s.S, s.S, lo.S, hi.S, lo.S, mx.S, lo.S))
	case *types.Basic: // string
		s := c.term(fr, x.X, st)
		if !hasHi {
			hi = T(SInt, "(str.len %s)", s.S)
		}
		c.Oblige(st, fr, x, "nopanic", "bounds", T(SBool, "(and (<= 0 %s) (<= %s %s) (<= %s (str.len %s)))", lo.S, lo.S, hi.S, hi.S, s.S), "slice bounds out of range")
		return T(SString, "(str.substr %s %s (- %s %s))", s.S, lo.S, hi.S, lo.S)
	case *types.Pointer:
		arr := u.Elem().Underlying().(*types.Array)
		p := c.term(fr, x.X, st)
		n := IntLit(arr.Len())
		if !hasHi {
			hi = n
		}
		if !hasMax {
			mx = n
		}
		c.Oblige(st, fr, x, "nopanic", "bounds", T(SBool, "(and (<= 0 %s) (<= %s %s) (<= %s %s) (<= %s %s))", lo.S, lo.S, hi.S, hi.S, mx.S, mx.S, n.S), "slice bounds out of range")
		return c.Name(st, "slice", T(SSlice, "(mk_slice %s %s (- %s %s) (- %s %s))", p.S, lo.S, hi.S, lo.S, mx.S, lo.S))
	}
	panic("Slice on unsupported type")
}

func (c *Ctx) doConvert(st *State, fr *Frame, x *ssa.Convert) Value {
	v := c.term(fr, x.X, st)
	from, to := x.X.Type(), x.Type()
	switch {
	case isInteger(from) && isInteger(to):
		if c.overflowMode(fr) {
			if bt, ok := to.Underlying().(*types.Basic); ok {
				if lo, hi, ok := intRange(bt); ok {
					c.Oblige(st, fr, x, "overflow", "narrow", T(SBool, "(and (<= %s %s) (<= %s %s))", lo, v.S, v.S, hi), "integer conversion in range")
				}
			}
		}
		return v
	case isInteger(from) && isFloat(to):
		return c.intToFloat(st, v, c.Reg.SortOf(to))
	case isFloat(from) && isInteger(to):
		return c.floatToInt(st, fr, x, v, to)
	case isFloat(from) && isFloat(to):
		if v.Sort == c.Reg.SortOf(to) {
			return v
		}
		if c.Reg.SortOf(to) == SF64 {
			return T(SF64, "((_ to_fp 11 53) RNE %s)", v.S)
		}
		return T(SF32, "((_ to_fp 8 24) RNE %s)", v.S)
	case isString(from) && isString(to):
		return v
	}
	// string <-> []byte / []rune, int -> string: uninterpreted
	fn := "conv_" + sanitize(c.Reg.TypeKey(from)) + "_to_" + sanitize(c.Reg.TypeKey(to))
	c.Reg.DeclFun(fn, []Sort{v.Sort}, c.Reg.SortOf(to))
	r := T(c.Reg.SortOf(to), "(%s %s)", fn, v.S)
	r = c.Name(st, "conv", r)
	c.AssumeWF(st, r, to)
	return r
}

// intToFloat: exact IEEE conversion of a mathematical integer (rounded to nearest even).
func (c *Ctx) intToFloat(st *State, v Term, sort Sort) Term {
	if v.Sort == SBV64 {
		if sort == SF64 {
			return T(SF64, "((_ to_fp 11 53) RNE %s)", v.S)
		}
		return T(SF32, "((_ to_fp 8 24) RNE %s)", v.S)
	}
	if sort == SF64 {
		return T(SF64, "((_ to_fp 11 53) RNE (to_real %s))", v.S)
	}
	return T(SF32, "((_ to_fp 8 24) RNE (to_real %s))", v.S)
}

// floatToInt: Go leaves int64(f) implementation-defined when the truncated value
// is out of range (or f is NaN); that is an obligation. In range the result is
// the truncation toward zero.
func (c *Ctx) floatToInt(st *State, fr *Frame, ins ssa.Instruction, v Term, to types.Type) Term {
	bt := to.Underlying().(*types.Basic)
	if c.Reg.IntBV {
		// machine semantics: defined iff the truncated value fits the 64-bit target
		two63 := F64Lit(9223372036854775808.0)
		var inRange Term
		if isUnsigned(to) {
			inRange = T(SBool, "(and (fp.gt %s %s) (fp.lt %s %s))", v.S, F64Lit(-1.0).S, v.S, F64Lit(18446744073709551616.0).S)
			c.Oblige(st, fr, ins, "nopanic", "float2int-defined", inRange, "float to integer conversion is defined (value in range of "+bt.Name()+")")
			return c.Name(st, "f2i", T(SBV64, "((_ fp.to_ubv 64) RTZ %s)", v.S))
		}
		inRange = T(SBool, "(and (fp.geq %s (fp.neg %s)) (fp.lt %s %s))", v.S, two63.S, v.S, two63.S)
		c.Oblige(st, fr, ins, "nopanic", "float2int-defined", inRange, "float to integer conversion is defined (value in range of "+bt.Name()+")")
		return c.Name(st, "f2i", T(SBV64, "((_ fp.to_sbv 64) RTZ %s)", v.S))
	}
	lo, hi, _ := intRange(bt)
	tr := T(v.Sort, "(fp.roundToIntegral RTZ %s)", v.S)
	r := c.FreshConst(st, "f2i", SInt)
	inRange := T(SBool, "(and (not (fp.isNaN %s)) (not (fp.isInfinite %s)) (<= (to_real %s) (fp.to_real %s)) (<= (fp.to_real %s) (to_real %s)))", v.S, v.S, lo, tr.S, tr.S, hi)
	c.Oblige(st, fr, ins, "nopanic", "float2int-defined", inRange, "float to integer conversion is defined (value in range of "+bt.Name()+")")
	st.Assume(T(SBool, "(= (to_real %s) (fp.to_real %s))", r.S, tr.S))
	st.Assume(T(SBool, "(and (<= %s %s) (<= %s %s))", lo, r.S, r.S, hi))
	return r
}

func (c *Ctx) doTypeAssert(st *State, fr *Frame, x *ssa.TypeAssert) []cont {
	v := c.term(fr, x.X, st)
	at := x.AssertedType
	if _, isIface := at.Underlying().(*types.Interface); isIface {
		// assertion to an interface type: holds iff the dynamic type implements it
		ok := c.implementsTerm(st, v, at)
		if x.CommaOk {
			fr.regs[x] = Tuple{Ite(ok, v, Term{"nil_any", SAny}), ok}
			return one(st, fr)
		}
		c.Oblige(st, fr, x, "nopanic", "", ok, "interface conversion: dynamic type implements "+c.shortType(at))
		fr.regs[x] = v
		return one(st, fr)
	}
	is := c.TagIs(v, at)
	if dyn, known := st.boxed[v.S]; known {
		is = BoolLit(types.Identical(dyn, at))
	}
	payload := c.Unbox(st, v, at)
	if x.CommaOk {
		okc := c.Name(st, "ok", is)
		val := c.Name(st, "ta", Ite(okc, payload, c.Reg.Zero(at)))
		c.AssumeWF(st, val, at)
		fr.regs[x] = Tuple{val, okc}
		return one(st, fr)
	}
	c.Oblige(st, fr, x, "nopanic", "", is, "type assertion to "+c.shortType(at)+" holds")
	val := c.Name(st, "ta", payload)
	c.AssumeWF(st, val, at)
	fr.regs[x] = val
	return one(st, fr)
}

// implementsTerm: does the dynamic type of v implement interface type it?
func (c *Ctx) implementsTerm(st *State, v Term, it types.Type) Term {
	iface := it.Underlying().(*types.Interface)
	if dyn, known := st.boxed[v.S]; known {
		return BoolLit(types.Implements(dyn, iface))
	}
	if iface.NumMethods() == 0 {
		return Not(Eq(v, Term{"nil_any", SAny}))
	}
	fn := "implements_" + sanitize(c.Reg.TypeKey(it))
	c.Reg.DeclFun(fn, []Sort{SInt}, SBool)
	c.Reg.Axiom(fmt.Sprintf("(assert (not (%s 0)))", fn))
	c.Reg.ImplementsFn(fn, iface)
	return T(SBool, "(%s (tagof %s))", fn, v.S)
}

func (c *Ctx) doRange(st *State, fr *Frame, x *ssa.Range) Value {
	it := &RangeIter{Instr: x}
	if mt, ok := x.X.Type().Underlying().(*types.Map); ok {
		it.IsMap = true
		it.Map = c.term(fr, x.X, st)
		it.K, it.V = mt.Key(), mt.Elem()
		it.Visited = fmt.Sprintf("IT|%s|%d|%s", sanitize(c.FuncKey(fr.fn)), x.Block().Index, x.Name())
		vs := ArraySort(c.Reg.SortOf(mt.Key()), SBool)
		c.famSorts[it.Visited] = vs
		st.arrays[it.Visited] = ConstArray(vs, False)
		c.checkMapAccess(st, fr, x, x.X, it.Map, false)
	}
	return it
}

func (c *Ctx) doNext(st *State, fr *Frame, x *ssa.Next) Value {
	it, _ := c.reg(fr, x.Iter, st).(*RangeIter)
	ok := c.FreshConst(st, "next.ok", SBool)
	if it == nil || !it.IsMap {
		// string iteration: index and rune unknown
		k := c.FreshConst(st, "next.i", SInt)
		v := c.FreshConst(st, "next.r", SInt)
		st.Assume(T(SBool, "(>= %s 0)", k.S))
		return Tuple{ok, k, v}
	}
	mt := types.NewMap(it.K, it.V)
	ks := c.Reg.SortOf(it.K)
	k := c.FreshConst(st, "next.k", ks)
	vis := st.arrays[it.Visited]
	dfam, dsort := c.famMapDom(mt)
	vfam, vsort := c.famMapVal(mt)
	d := Select(c.Arr(st, dfam, dsort), it.Map)
	va := Select(c.Arr(st, vfam, vsort), it.Map)
	st.Assume(Implies(ok, And(Select(d, k), Not(Select(vis, k)))))
	q := c.Reg.Fresh("q")
	st.Assume(Implies(Not(ok), T(SBool, "(forall ((%s %s)) (=> (select %s %s) (select %s %s)))", q, ks, d.S, q, vis.S, q)))
	v := c.Name(st, "next.v", Select(va, k))
	c.AssumeWF(st, v, it.V)
	c.AssumeWF(st, k, it.K)
	nv := c.NameAlways(st, "visited", Ite(ok, Store(vis, k, True), vis))
	st.arrays[it.Visited] = nv
	return Tuple{ok, k, v}
}

func (c *Ctx) runDefers(st *State, fr *Frame) []cont {
	conts := one(st, fr)
	n := len(fr.defers)
	for i := n - 1; i >= 0; i-- {
		var next []cont
		for _, ct := range conts {
			d := ct.fr.defers[i]
			next = append(next, c.doCallCommon(ct.st, ct.fr, d.instr, d.call, nil, d.fnVal, d.args, true)...)
		}
		conts = next
	}
	for _, ct := range conts {
		ct.fr.defers = nil
	}
	return conts
}

func constInt(v ssa.Value) (int64, bool) {
	if k, ok := v.(*ssa.Const); ok && k.Value != nil && k.Value.Kind() == constant.Int {
		return constant.Int64Val(k.Value)
	}
	return 0, false
}

func typeName(t types.Type) string {
	s := t.String()
	if i := strings.LastIndex(s, "/"); i >= 0 {
		s = s[i+1:]
	}
	return s
}

// assignedVars maps the right-hand side expression of every single assignment
// `v := e` / `v = e` / `var v = e` in a function to the name of v.
func (c *Ctx) assignedVars(fn *ssa.Function) map[ast.Expr]string {
	if m, ok := c.assigned[fn]; ok {
		return m
	}
	m := map[ast.Expr]string{}
	if syn := fn.Syntax(); syn != nil {
		ast.Inspect(syn, func(n ast.Node) bool {
			switch a := n.(type) {
			case *ast.AssignStmt:
				if len(a.Lhs) == len(a.Rhs) {
					for i, l := range a.Lhs {
						if id, ok := l.(*ast.Ident); ok && id.Name != "_" {
							m[ast.Unparen(a.Rhs[i])] = id.Name
							m[a.Rhs[i]] = id.Name
						}
					}
				}
			case *ast.ValueSpec:
				if len(a.Names) == len(a.Values) {
					for i, id := range a.Names {
						if id.Name != "_" {
							m[a.Values[i]] = id.Name
						}
					}
				}
			}
			return true
		})
	}
	c.assigned[fn] = m
	return m
}

// checkCaptures: the `captures` clauses of a closure's contract are facts about its captured
// variables that hold when the closure is created (and, being about immutable state, whenever
// it runs): asserted here, assumed at the closure's entry.
func (c *Ctx) checkCaptures(st *State, fr *Frame, ins ssa.Instruction, fn *ssa.Function, bindings []Value) {
	ct := c.Contracts[c.FuncKey(fn)]
	if ct == nil || len(ct.Captures) == 0 {
		return
	}
	pf := &Frame{fn: fn, regs: map[ssa.Value]Value{}, inLoops: map[*ssa.BasicBlock]bool{}}
	for i, fv := range fn.FreeVars {
		if i < len(bindings) {
			pf.regs[fv] = bindings[i]
		}
	}
	saved := c.cur
	env := c.envForFrame(st, pf)
	c.cur = saved
	for i, r := range ct.Captures {
		t, err := c.evalGoal(env, r.Expr)
		if err != nil {
			c.Errorf("CONTRACT-ERROR %s: %v", r.Line, err)
			continue
		}
		label := r.Label
		if label == "" {
			label = fmt.Sprintf("captures.%d", i+1)
		}
		c.Oblige(st, fr, ins, "pre", "captures "+label, t, c.ShortName(c.FuncKey(fn))+" captures "+r.Text)
	}
}
