// Package vc is the verification-condition generator of govc: a forward symbolic
// executor over go/ssa that enumerates the acyclic paths between cut points and
// emits one SMT-LIB query per obligation met on a path.
package vc

import (
	"fmt"
	"go/constant"
	"go/types"
	"math"
	"math/big"
	"sort"
	"strings"
)

// Sort is the SMT-LIB text of a sort.
type Sort string

const (
	SInt    Sort = "Int"
	SBool   Sort = "Bool"
	SString Sort = "String"
	SAny    Sort = "Any"
	SSlice  Sort = "Slice"
	SF64    Sort = "(_ FloatingPoint 11 53)"
	SF32    Sort = "(_ FloatingPoint 8 24)"
	SOpaque Sort = "Opaque"
	SBV64   Sort = "(_ BitVec 64)"
)

// Term is an SMT term with its sort.
type Term struct {
	S    string
	Sort Sort
}

func (t Term) String() string { return t.S }

func T(sort Sort, format string, a ...any) Term {
	return Term{S: fmt.Sprintf(format, a...), Sort: sort}
}

func IntLit(n int64) Term {
	if n < 0 {
		if n == math.MinInt64 {
			return Term{"(- 9223372036854775808)", SInt}
		}
		return Term{fmt.Sprintf("(- %d)", -n), SInt}
	}
	return Term{fmt.Sprintf("%d", n), SInt}
}

func BigIntLit(b *big.Int) Term {
	if b.Sign() < 0 {
		return Term{"(- " + new(big.Int).Neg(b).String() + ")", SInt}
	}
	return Term{b.String(), SInt}
}

func BoolLit(b bool) Term {
	if b {
		return Term{"true", SBool}
	}
	return Term{"false", SBool}
}

var True = BoolLit(true)
var False = BoolLit(false)

// StrLit renders a Go string as an SMT-LIB 2.6 string literal. Every byte of the
// Go string becomes one SMT character (bytes >= 0x80 are written as \u{xx}): the
// model is "strings are sequences of bytes".
func StrLit(s string) Term {
	var b strings.Builder
	b.WriteByte('"')
	for i := 0; i < len(s); i++ {
		c := s[i]
		switch {
		case c == '"':
			b.WriteString(`""`)
		case c == '\\':
			b.WriteString(`\u{5c}`)
		case c >= 0x20 && c < 0x7f:
			b.WriteByte(c)
		default:
			fmt.Fprintf(&b, `\u{%x}`, c)
		}
	}
	b.WriteByte('"')
	return Term{b.String(), SString}
}

func F64Lit(f float64) Term {
	bits := math.Float64bits(f)
	sign := bits >> 63
	exp := (bits >> 52) & 0x7ff
	man := bits & ((1 << 52) - 1)
	return Term{fmt.Sprintf("(fp #b%01b #b%011b #b%052b)", sign, exp, man), SF64}
}

func And(ts ...Term) Term {
	var parts []string
	for _, t := range ts {
		if t.S == "true" {
			continue
		}
		if t.S == "false" {
			return False
		}
		parts = append(parts, t.S)
	}
	switch len(parts) {
	case 0:
		return True
	case 1:
		return Term{parts[0], SBool}
	}
	return Term{"(and " + strings.Join(parts, " ") + ")", SBool}
}

func Or(ts ...Term) Term {
	var parts []string
	for _, t := range ts {
		if t.S == "false" {
			continue
		}
		if t.S == "true" {
			return True
		}
		parts = append(parts, t.S)
	}
	switch len(parts) {
	case 0:
		return False
	case 1:
		return Term{parts[0], SBool}
	}
	return Term{"(or " + strings.Join(parts, " ") + ")", SBool}
}

func Not(t Term) Term {
	switch t.S {
	case "true":
		return False
	case "false":
		return True
	}
	if strings.HasPrefix(t.S, "(not ") && strings.HasSuffix(t.S, ")") {
		inner := t.S[5 : len(t.S)-1]
		if balanced(inner) {
			return Term{inner, SBool}
		}
	}
	return Term{"(not " + t.S + ")", SBool}
}

func balanced(s string) bool {
	d := 0
	inStr := false
	for i := 0; i < len(s); i++ {
		c := s[i]
		if inStr {
			if c == '"' {
				inStr = false
			}
			continue
		}
		switch c {
		case '"':
			inStr = true
		case '(':
			d++
		case ')':
			d--
			if d < 0 {
				return false
			}
		case ' ':
			if d == 0 {
				return false
			}
		}
	}
	return d == 0
}

func Implies(a, b Term) Term {
	if a.S == "true" {
		return b
	}
	if a.S == "false" || b.S == "true" {
		return True
	}
	return Term{"(=> " + a.S + " " + b.S + ")", SBool}
}

func Eq(a, b Term) Term {
	if a.S == b.S {
		return True
	}
	if a.Sort == SF64 || a.Sort == SF32 {
		// structural equality of the SMT values (used for definitions); Go's == is fp.eq
		return Term{"(= " + a.S + " " + b.S + ")", SBool}
	}
	return Term{"(= " + a.S + " " + b.S + ")", SBool}
}

func Ite(c, a, b Term) Term {
	if c.S == "true" {
		return a
	}
	if c.S == "false" {
		return b
	}
	return Term{"(ite " + c.S + " " + a.S + " " + b.S + ")", a.Sort}
}

func Select(arr Term, idx Term) Term {
	return Term{"(select " + arr.S + " " + idx.S + ")", arrayElem(arr.Sort)}
}

func Store(arr, idx, v Term) Term {
	return Term{"(store " + arr.S + " " + idx.S + " " + v.S + ")", arr.Sort}
}

func ArraySort(idx, elem Sort) Sort {
	return Sort("(Array " + string(idx) + " " + string(elem) + ")")
}

// arrayElem returns the element sort of "(Array I E)".
func arrayElem(s Sort) Sort {
	str := string(s)
	if !strings.HasPrefix(str, "(Array ") {
		panic("not an array sort: " + str)
	}
	body := str[7 : len(str)-1]
	// split the first sort off
	i := sortEnd(body)
	return Sort(strings.TrimSpace(body[i:]))
}

func arrayIdx(s Sort) Sort {
	str := string(s)
	body := str[7 : len(str)-1]
	i := sortEnd(body)
	return Sort(strings.TrimSpace(body[:i]))
}

func sortEnd(s string) int {
	if s[0] != '(' {
		i := strings.IndexByte(s, ' ')
		if i < 0 {
			return len(s)
		}
		return i
	}
	d := 0
	for i := 0; i < len(s); i++ {
		switch s[i] {
		case '(':
			d++
		case ')':
			d--
			if d == 0 {
				return i + 1
			}
		}
	}
	return len(s)
}

func ConstArray(s Sort, v Term) Term {
	return Term{"((as const " + string(s) + ") " + v.S + ")", s}
}

// ZeroArray is the array of sort s that maps every index to v. When v is not an SMT
// value (it mentions a declared constant such as nil_any) a constant array term is not
// portable (cvc5 rejects it): a named array with a defining axiom is used instead.
func (r *Registry) ZeroArray(s Sort, v Term) Term {
	val := strings.ReplaceAll(v.S, "nil_slice", "(mk_slice 0 0 0 0)")
	if !strings.Contains(val, "nil_any") && !strings.Contains(val, "zero_") {
		return Term{"((as const " + string(s) + ") " + val + ")", s}
	}
	name := "zarr_" + sanitize(string(s)) + "_" + fmt.Sprintf("%x", len(val)) + "_" + sanitize(val)
	if len(name) > 80 {
		name = name[:80]
	}
	if !r.seen[name] {
		r.Declare(name, fmt.Sprintf("(declare-const %s %s)", name, s))
		// z3 form (constant array); the solver runner rewrites this line into a quantified
		// axiom for cvc5, which only accepts values in constant arrays
		r.Axiom(fmt.Sprintf("(assert (= %s ((as const %s) %s))) ;zarr %s %s", name, s, val, arrayIdx(s), val))
	}
	return Term{name, s}
}

// ---------------------------------------------------------------------------
// Global registry of sorts, datatypes, functions: everything that is not
// path-specific. It is emitted in full at the head of every query.
// ---------------------------------------------------------------------------

type structInfo struct {
	sort   Sort
	ctor   string
	fields []string // accessor names
	ftypes []types.Type
	st     *types.Struct
}

type Registry struct {
	axiomSeen map[string]bool
	implFns map[string]*types.Interface
	lines      []string          // declarations, in order
	seen       map[string]bool   // names declared
	structs    map[string]*structInfo
	typeIDs    map[string]int
	typeByID   []types.Type
	boxes      map[string]bool
	qual       types.Qualifier
	fresh      int
	opaque     map[string]Sort
	axioms     []string
	// IntBV: Go integers are 64-bit vectors (machine semantics) instead of mathematical integers.
	IntBV bool
}

func NewRegistry() *Registry {
	r := &Registry{
		seen:    map[string]bool{},
		structs: map[string]*structInfo{},
		typeIDs: map[string]int{},
		boxes:   map[string]bool{},
		opaque:  map[string]Sort{},
	}
	r.qual = func(p *types.Package) string { return p.Path() }
	r.typeByID = append(r.typeByID, nil) // id 0 = nil interface
	r.lines = append(r.lines,
		"(declare-sort Any 0)",
		"(declare-sort Opaque 0)",
		"(declare-datatypes ((Slice 0)) (((mk_slice (sl_arr Int) (sl_off Int) (sl_len Int) (sl_cap Int)))))",
		"(declare-fun tagof (Any) Int)",
		"(declare-const nil_any Any)",
		"(assert (= (tagof nil_any) 0))",
		"(declare-const nil_slice Slice)",
		"(assert (= nil_slice (mk_slice 0 0 0 0)))",
		// element i of slice s lives at index (sidx s i) of its backing array; an uninterpreted
		// function (instead of the sum) keeps quantifier triggers free of arithmetic
		"(declare-fun sidx (Slice Int) Int)",
		"(assert (forall ((s Slice) (i Int)) (! (= (sidx s i) (+ (sl_off s) i)) :pattern ((sidx s i)))))",
	)
	return r
}

func (r *Registry) Fresh(prefix string) string {
	r.fresh++
	return fmt.Sprintf("%s!%d", sanitize(prefix), r.fresh)
}

func sanitize(s string) string {
	var b strings.Builder
	for _, c := range s {
		switch {
		case c >= 'a' && c <= 'z', c >= 'A' && c <= 'Z', c >= '0' && c <= '9', c == '_', c == '.', c == '$', c == '!':
			b.WriteRune(c)
		case c == '*':
			b.WriteString("ptr.")
		case c == '[':
			b.WriteString("_L")
		case c == ']':
			b.WriteString("R_")
		case c == '/':
			b.WriteString("..")
		default:
			b.WriteString("_")
		}
	}
	return b.String()
}

// TypeKey is a canonical name of a type: aliases are resolved everywhere, so that
// `any` and `interface{}` (and types reached through either) get the same key.
func (r *Registry) TypeKey(t types.Type) string {
	return canonType(t, r.qual)
}

func canonType(t types.Type, q types.Qualifier) string {
	t = types.Unalias(t)
	switch x := t.(type) {
	case *types.Basic:
		return x.Name()
	case *types.Pointer:
		return "*" + canonType(x.Elem(), q)
	case *types.Slice:
		return "[]" + canonType(x.Elem(), q)
	case *types.Array:
		return fmt.Sprintf("[%d]%s", x.Len(), canonType(x.Elem(), q))
	case *types.Map:
		return "map[" + canonType(x.Key(), q) + "]" + canonType(x.Elem(), q)
	case *types.Chan:
		return "chan " + canonType(x.Elem(), q)
	case *types.Interface:
		if x.NumMethods() == 0 && x.NumEmbeddeds() == 0 {
			return "any"
		}
		return types.TypeString(x, q)
	case *types.Named:
		name := x.Obj().Name()
		if p := x.Obj().Pkg(); p != nil {
			name = q(p) + "." + name
		}
		if ta := x.TypeArgs(); ta != nil && ta.Len() > 0 {
			parts := make([]string, ta.Len())
			for i := 0; i < ta.Len(); i++ {
				parts[i] = canonType(ta.At(i), q)
			}
			name += "[" + strings.Join(parts, ",") + "]"
		}
		return name
	case *types.Struct:
		parts := make([]string, x.NumFields())
		for i := 0; i < x.NumFields(); i++ {
			parts[i] = x.Field(i).Name() + " " + canonType(x.Field(i).Type(), q)
		}
		return "struct{" + strings.Join(parts, "; ") + "}"
	}
	return types.TypeString(t, q)
}

func (r *Registry) Declare(name string, line string) {
	if r.seen[name] {
		return
	}
	r.seen[name] = true
	r.lines = append(r.lines, line)
}

func (r *Registry) Axiom(line string) {
	if r.axiomSeen == nil {
		r.axiomSeen = map[string]bool{}
	}
	if r.axiomSeen[line] {
		return
	}
	r.axiomSeen[line] = true
	r.axioms = append(r.axioms, line)
}

// DeclFun declares an uninterpreted function once.
func (r *Registry) DeclFun(name string, args []Sort, res Sort) {
	if r.seen[name] {
		return
	}
	as := make([]string, len(args))
	for i, a := range args {
		as[i] = string(a)
	}
	r.Declare(name, fmt.Sprintf("(declare-fun %s (%s) %s)", name, strings.Join(as, " "), res))
}

func (r *Registry) Prelude() string {
	var b strings.Builder
	b.WriteString(strings.Join(r.lines, "\n") + "\n" + strings.Join(r.axioms, "\n") + "\n")
	// which of the concrete types met so far implement the interfaces asserted to
	if len(r.implFns) > 0 {
		names := make([]string, 0, len(r.implFns))
		for n := range r.implFns {
			names = append(names, n)
		}
		sort.Strings(names)
		for _, n := range names {
			iface := r.implFns[n]
			for id := 1; id < len(r.typeByID); id++ {
				t := r.typeByID[id]
				if _, isI := t.Underlying().(*types.Interface); isI {
					continue
				}
				fmt.Fprintf(&b, "(assert (= (%s %d) %v))\n", n, id, types.Implements(t, iface))
			}
		}
	}
	return b.String()
}

// ImplementsFn registers the predicate "the type with this tag implements iface".
func (r *Registry) ImplementsFn(name string, iface *types.Interface) {
	if r.implFns == nil {
		r.implFns = map[string]*types.Interface{}
	}
	r.implFns[name] = iface
}

// TypeID returns the interface tag of a concrete type.
func (r *Registry) TypeID(t types.Type) int {
	k := r.TypeKey(t)
	if id, ok := r.typeIDs[k]; ok {
		return id
	}
	id := len(r.typeByID)
	r.typeByID = append(r.typeByID, t)
	r.typeIDs[k] = id
	return id
}

func (r *Registry) TypeByID(id int) types.Type {
	if id <= 0 || id >= len(r.typeByID) {
		return nil
	}
	return r.typeByID[id]
}

// SortOf maps a Go type to its SMT sort (declaring datatypes on demand).
func (r *Registry) SortOf(t types.Type) Sort {
	switch u := t.Underlying().(type) {
	case *types.Basic:
		switch {
		case u.Info()&types.IsBoolean != 0:
			return SBool
		case u.Info()&types.IsInteger != 0:
			if r.IntBV {
				return SBV64
			}
			return SInt
		case u.Kind() == types.Float64 || u.Kind() == types.UntypedFloat:
			return SF64
		case u.Kind() == types.Float32:
			return SF32
		case u.Info()&types.IsString != 0:
			return SString
		case u.Kind() == types.UnsafePointer:
			return SInt
		case u.Kind() == types.UntypedNil:
			return SInt
		}
		return SOpaque
	case *types.Pointer, *types.Map, *types.Chan, *types.Signature:
		return SInt
	case *types.Interface:
		return SAny
	case *types.Slice:
		return SSlice
	case *types.Array:
		return ArraySort(SInt, r.SortOf(u.Elem()))
	case *types.Struct:
		return r.structSort(t, u).sort
	case *types.Tuple:
		return SOpaque
	case *types.TypeParam:
		return SAny
	}
	return SOpaque
}

func (r *Registry) structSort(t types.Type, st *types.Struct) *structInfo {
	k := r.TypeKey(t)
	if _, isNamed := t.(*types.Named); !isNamed {
		if _, isAlias := t.(*types.Alias); !isAlias {
			k = "struct:" + k
		}
	}
	if si, ok := r.structs[k]; ok {
		return si
	}
	n := len(r.structs)
	base := k
	if i := strings.LastIndex(base, "/"); i >= 0 {
		base = base[i+1:]
	}
	name := fmt.Sprintf("S%d_%s", n, sanitize(base))
	if len(name) > 60 {
		name = name[:60]
	}
	si := &structInfo{sort: Sort(name), ctor: "mk_" + name, st: st}
	r.structs[k] = si // register before recursion (no by-value recursion in Go)
	var fdecl []string
	for i := 0; i < st.NumFields(); i++ {
		f := st.Field(i)
		fs := r.SortOf(f.Type())
		acc := fmt.Sprintf("%s_%s", name, sanitize(f.Name()))
		if f.Name() == "_" {
			acc = fmt.Sprintf("%s_blank%d", name, i)
		}
		si.fields = append(si.fields, acc)
		si.ftypes = append(si.ftypes, f.Type())
		fdecl = append(fdecl, fmt.Sprintf("(%s %s)", acc, fs))
	}
	if len(fdecl) == 0 {
		r.Declare(name, fmt.Sprintf("(declare-datatypes ((%s 0)) (((%s))))", name, si.ctor))
	} else {
		r.Declare(name, fmt.Sprintf("(declare-datatypes ((%s 0)) (((%s %s))))", name, si.ctor, strings.Join(fdecl, " ")))
	}
	return si
}

func (r *Registry) StructInfo(t types.Type) *structInfo {
	st, ok := t.Underlying().(*types.Struct)
	if !ok {
		return nil
	}
	return r.structSort(t, st)
}

// Zero returns the zero value of a Go type.
func (r *Registry) Zero(t types.Type) Term {
	s := r.SortOf(t)
	switch s {
	case SInt:
		return IntLit(0)
	case SBV64:
		return Term{"(_ bv0 64)", SBV64}
	case SBool:
		return False
	case SString:
		return StrLit("")
	case SAny:
		return Term{"nil_any", SAny}
	case SSlice:
		return Term{"nil_slice", SSlice}
	case SF64:
		return Term{"(_ +zero 11 53)", SF64}
	case SF32:
		return Term{"(_ +zero 8 24)", SF32}
	}
	if st, ok := t.Underlying().(*types.Struct); ok {
		si := r.structSort(t, st)
		if len(si.fields) == 0 {
			return Term{si.ctor, si.sort}
		}
		parts := make([]string, len(si.fields))
		for i := range si.fields {
			parts[i] = r.Zero(si.ftypes[i]).S
		}
		return Term{"(" + si.ctor + " " + strings.Join(parts, " ") + ")", si.sort}
	}
	if a, ok := t.Underlying().(*types.Array); ok {
		return r.ZeroArray(s, r.Zero(a.Elem()))
	}
	// opaque zero: one constant per sort/type
	name := "zero_" + sanitize(r.TypeKey(t))
	r.Declare(name, fmt.Sprintf("(declare-const %s %s)", name, s))
	return Term{name, s}
}

// Box wraps a concrete value into an interface value.
func (r *Registry) boxName(t types.Type) (string, string, int) {
	id := r.TypeID(t)
	bn := fmt.Sprintf("box_%d", id)
	un := fmt.Sprintf("unbox_%d", id)
	if !r.boxes[bn] {
		r.boxes[bn] = true
		s := r.SortOf(t)
		r.DeclFun(bn, []Sort{s}, SAny)
		r.DeclFun(un, []Sort{SAny}, s)
		r.lines = append(r.lines, fmt.Sprintf("; type id %d = %s", id, r.TypeKey(t)))
	}
	return bn, un, id
}

// Const translates a Go constant of type t.
func (r *Registry) Const(val constant.Value, t types.Type) (Term, bool) {
	if val == nil {
		return r.Zero(t), true
	}
	s := r.SortOf(t)
	if s == SBV64 {
		iv := constant.ToInt(val)
		if iv.Kind() == constant.Int {
			if bi, ok := constant.Val(iv).(*big.Int); ok {
				return BVLit(bi), true
			}
			if i, ok := constant.Int64Val(iv); ok {
				return BVLit(big.NewInt(i)), true
			}
		}
		return Term{}, false
	}
	switch s {
	case SInt:
		if val.Kind() == constant.Int {
			if i, ok := constant.Int64Val(val); ok {
				return IntLit(i), true
			}
			if bi, ok := constant.Val(val).(*big.Int); ok {
				return BigIntLit(bi), true
			}
		}
		if val.Kind() == constant.Float {
			iv := constant.ToInt(val)
			if iv.Kind() == constant.Int {
				if i, ok := constant.Int64Val(iv); ok {
					return IntLit(i), true
				}
			}
		}
	case SBool:
		return BoolLit(constant.BoolVal(val)), true
	case SString:
		return StrLit(constant.StringVal(val)), true
	case SF64:
		f, _ := constant.Float64Val(constant.ToFloat(val))
		return F64Lit(f), true
	}
	return Term{}, false
}

func sortedKeys[V any](m map[string]V) []string {
	ks := make([]string, 0, len(m))
	for k := range m {
		ks = append(ks, k)
	}
	sort.Strings(ks)
	return ks
}

// BVLit renders an integer as a 64-bit vector (two's complement).
func BVLit(b *big.Int) Term {
	m := new(big.Int).Lsh(big.NewInt(1), 64)
	v := new(big.Int).Mod(b, m)
	return Term{"(_ bv" + v.String() + " 64)", SBV64}
}

// IntTermToBV converts a literal Int term ("5", "(- 5)") to a bit-vector literal.
func IntTermToBV(t Term) (Term, bool) {
	s := strings.TrimSpace(t.S)
	neg := false
	if strings.HasPrefix(s, "(- ") && strings.HasSuffix(s, ")") {
		neg = true
		s = strings.TrimSpace(s[3 : len(s)-1])
	}
	b, ok := new(big.Int).SetString(s, 10)
	if !ok {
		return Term{}, false
	}
	if neg {
		b.Neg(b)
	}
	return BVLit(b), true
}
