package vc

import (
	"fmt"
	"regexp/syntax"
	"strings"
)

// regexToSMT translates a Go regular expression (RE2 syntax, search semantics as
// used by regexp.MatchString) into an SMT-LIB RegLan term describing exactly the
// strings on which MatchString returns true. Characters are bytes 0..255.
func regexToSMT(pattern string) (string, error) {
	re, err := syntax.Parse(pattern, syntax.Perl)
	if err != nil {
		return "", err
	}
	re = re.Simplify()
	return reLang(re, true, true)
}

const reAll = "re.all"

func reLit(r rune, fold bool) string {
	one := func(r rune) string {
		if r > 255 {
			r = 255
		}
		return "(str.to_re " + StrLit(string([]byte{byte(r)})).S + ")"
	}
	if fold {
		lo, up := r, r
		if r >= 'A' && r <= 'Z' {
			lo = r + 32
		}
		if r >= 'a' && r <= 'z' {
			up = r - 32
		}
		if lo != up {
			return "(re.union " + one(lo) + " " + one(up) + ")"
		}
	}
	return one(r)
}

func reLang(n *syntax.Regexp, leftOpen, rightOpen bool) (string, error) {
	wrap := func(core string) string {
		parts := []string{}
		if leftOpen {
			parts = append(parts, reAll)
		}
		parts = append(parts, core)
		if rightOpen {
			parts = append(parts, reAll)
		}
		if len(parts) == 1 {
			return core
		}
		return "(re.++ " + strings.Join(parts, " ") + ")"
	}
	switch n.Op {
	case syntax.OpEmptyMatch:
		return wrap(`(str.to_re "")`), nil
	case syntax.OpLiteral:
		var parts []string
		for _, r := range n.Rune {
			parts = append(parts, reLit(r, n.Flags&syntax.FoldCase != 0))
		}
		if len(parts) == 1 {
			return wrap(parts[0]), nil
		}
		return wrap("(re.++ " + strings.Join(parts, " ") + ")"), nil
	case syntax.OpCharClass:
		var parts []string
		for i := 0; i+1 < len(n.Rune); i += 2 {
			lo, hi := n.Rune[i], n.Rune[i+1]
			if lo > 255 {
				continue
			}
			if hi > 255 {
				hi = 255
			}
			if lo == hi {
				parts = append(parts, reLit(lo, false))
			} else {
				parts = append(parts, fmt.Sprintf("(re.range %s %s)", StrLit(string([]byte{byte(lo)})).S, StrLit(string([]byte{byte(hi)})).S))
			}
		}
		switch len(parts) {
		case 0:
			return wrap("re.none"), nil
		case 1:
			return wrap(parts[0]), nil
		}
		return wrap("(re.union " + strings.Join(parts, " ") + ")"), nil
	case syntax.OpAnyChar:
		return wrap("re.allchar"), nil
	case syntax.OpAnyCharNotNL:
		return wrap(`(re.diff re.allchar (str.to_re "\u{a}"))`), nil
	case syntax.OpBeginText:
		if !leftOpen {
			return "", fmt.Errorf("regex: ^ in the middle of a pattern is not supported")
		}
		if rightOpen {
			return reAll, nil
		}
		return `(str.to_re "")`, nil
	case syntax.OpEndText:
		if !rightOpen {
			return "", fmt.Errorf("regex: $ in the middle of a pattern is not supported")
		}
		if leftOpen {
			return reAll, nil
		}
		return `(str.to_re "")`, nil
	case syntax.OpCapture:
		return reLang(n.Sub[0], leftOpen, rightOpen)
	case syntax.OpStar, syntax.OpPlus, syntax.OpQuest, syntax.OpRepeat:
		sub, err := reLang(n.Sub[0], false, false)
		if err != nil {
			return "", err
		}
		switch n.Op {
		case syntax.OpStar:
			return wrap("(re.* " + sub + ")"), nil
		case syntax.OpPlus:
			return wrap("(re.+ " + sub + ")"), nil
		case syntax.OpQuest:
			return wrap("(re.opt " + sub + ")"), nil
		}
		if n.Max < 0 {
			return wrap(fmt.Sprintf("(re.++ ((_ re.loop %d %d) %s) (re.* %s))", n.Min, n.Min, sub, sub)), nil
		}
		return wrap(fmt.Sprintf("((_ re.loop %d %d) %s)", n.Min, n.Max, sub)), nil
	case syntax.OpConcat:
		return concatWithOpenness(n.Sub, leftOpen, rightOpen, n)
	case syntax.OpAlternate:
		var parts []string
		for _, s := range n.Sub {
			p, err := reLang(s, leftOpen, rightOpen)
			if err != nil {
				return "", err
			}
			parts = append(parts, p)
		}
		return "(re.union " + strings.Join(parts, " ") + ")", nil
	}
	return "", fmt.Errorf("regex: unsupported operator %v", n.Op)
}

// concatWithOpenness is the actual concatenation translation.
func concatWithOpenness(subs []*syntax.Regexp, leftOpen, rightOpen bool, n *syntax.Regexp) (string, error) {
	_ = n
	start, end := 0, len(subs)
	lo, ro := true, true
	// the flags passed in already reflect consumed anchors; recompute from scratch instead
	lo, ro = leftOpenOrig(subs, leftOpen), rightOpenOrig(subs, rightOpen)
	if len(subs) > 0 && subs[0].Op == syntax.OpBeginText {
		start = 1
	}
	if end > start && subs[end-1].Op == syntax.OpEndText {
		end--
	}
	var parts []string
	if lo {
		parts = append(parts, reAll)
	}
	for _, s := range subs[start:end] {
		p, err := reLang(s, false, false)
		if err != nil {
			return "", err
		}
		parts = append(parts, p)
	}
	if ro {
		parts = append(parts, reAll)
	}
	switch len(parts) {
	case 0:
		return `(str.to_re "")`, nil
	case 1:
		return parts[0], nil
	}
	return "(re.++ " + strings.Join(parts, " ") + ")", nil
}

func leftOpenOrig(subs []*syntax.Regexp, passed bool) bool {
	if len(subs) > 0 && subs[0].Op == syntax.OpBeginText {
		return false
	}
	return passed
}

func rightOpenOrig(subs []*syntax.Regexp, passed bool) bool {
	if len(subs) > 0 && subs[len(subs)-1].Op == syntax.OpEndText {
		return false
	}
	return passed
}
