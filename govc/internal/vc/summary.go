package vc

import (
	"go/token"
	"fmt"
	"go/types"
	"strings"

	"golang.org/x/tools/go/ssa"
)

// writeSummary over-approximates the heap families a piece of code may write.
type famWrite struct {
	all       bool
	bases     []ssa.Value // objects written, identified by values defined outside the region
	fbases    []fieldBase // objects written, identified as the content of a field of such a value
	freshOnly bool        // besides bases, only objects allocated inside the region are written
}

// fieldBase: the object held by field `field` of the struct `ptr` points to (ptr is defined
// outside the region; the field must not be written inside it).
type fieldBase struct {
	ptr   ssa.Value
	strct types.Type
	field int
}

type writeSummary struct {
	why string // first place that made the summary unknown (diagnostics)
	top  bool
	fams map[string]*famWrite
	allocs bool
}

func (ws *writeSummary) get(f string) *famWrite {
	fw := ws.fams[f]
	if fw == nil {
		fw = &famWrite{}
		ws.fams[f] = fw
	}
	return fw
}

func (ws *writeSummary) all(f string) { ws.get(f).all = true }

func (ws *writeSummary) merge(o *writeSummary) {
	if o.top {
		ws.top = true
		ws.noteTop("merge<" + o.why + ">")
	}
	if o.allocs {
		ws.allocs = true
	}
	for f, fw := range o.fams {
		if fw.freshOnly && !fw.all && len(fw.bases) == 0 && len(fw.fbases) == 0 {
			// the callee writes only objects it allocated itself
			ws.get(f).freshOnly = true
			continue
		}
		ws.all(f) // bases of a callee are meaningless in the caller
	}
}

// baseKind classifies the object an address is derived from, relative to a region.
//   0: defined outside the region (stable base), 1: allocated inside, 2: unknown
func baseKind(v ssa.Value, region map[*ssa.BasicBlock]bool) int {
	switch x := v.(type) {
	case *ssa.Parameter, *ssa.FreeVar, *ssa.Global, *ssa.Const, *ssa.Function:
		return 0
	case ssa.Instruction:
		if region == nil {
			// whole function is the region
			switch x.(type) {
			case *ssa.Alloc, *ssa.MakeMap, *ssa.MakeSlice, *ssa.MakeChan:
				return 1
			}
			return 2
		}
		if !region[x.Block()] {
			return 0
		}
		switch x.(type) {
		case *ssa.Alloc, *ssa.MakeMap, *ssa.MakeSlice, *ssa.MakeChan:
			return 1
		}
		return 2
	}
	return 2
}

func (ws *writeSummary) write(fam string, base ssa.Value, region map[*ssa.BasicBlock]bool) {
	// the backing array of append(s, ...) is that of s or a fresh one
	if call, ok := base.(*ssa.Call); ok {
		if b, ok := call.Call.Value.(*ssa.Builtin); ok && b.Name() == "append" && len(call.Call.Args) > 0 {
			ws.get(fam).freshOnly = true
			ws.write(fam, call.Call.Args[0], region)
			return
		}
	}
	if sl, ok := base.(*ssa.Slice); ok {
		// a sub-slice shares the backing array of what it slices
		ws.write(fam, sl.X, region)
		return
	}
	if region == nil {
		// summary of a whole function: stores into its own non-escaping locals are
		// invisible to every caller
		if a, ok := base.(*ssa.Alloc); ok && !a.Heap {
			return
		}
	}
	if un, ok := base.(*ssa.UnOp); ok && un.Op == token.MUL && region != nil {
		if fa, ok := un.X.(*ssa.FieldAddr); ok && baseKind(fa.X, region) == 0 && baseKind(base, region) != 0 {
			fw := ws.get(fam)
			fw.fbases = append(fw.fbases, fieldBase{fa.X, deref(fa.X.Type()), fa.Field})
			return
		}
	}
	fw := ws.get(fam)
	switch baseKind(base, region) {
	case 0:
		if region == nil {
			fw.all = true // summaries of whole functions are family-level
			return
		}
		fw.bases = append(fw.bases, base)
	case 1:
		fw.freshOnly = true
	default:
		fw.all = true
	}
}

// summarizeInstr adds the effects of one instruction.
func (c *Ctx) summarizeInstr(ws *writeSummary, fn *ssa.Function, ins ssa.Instruction, depth int, region map[*ssa.BasicBlock]bool) {
	// ghost updates attached to this instruction by the contract (site ... set g(...))
	if ct := c.Contracts[c.FuncKey(fn)]; ct != nil && len(ct.SiteSets) > 0 {
		if si, ok := c.sitesOf(fn)[ins]; ok {
			for _, cl := range ct.SiteSets[fmt.Sprintf("%s#%d", si.class, si.ord)] {
				if cl.Expr != nil && cl.Expr.Op == "call" {
					ws.all("GH|" + cl.Expr.Text)
				}
			}
		}
	}
	switch x := ins.(type) {
	case *ssa.Store:
		c.summarizeStore(ws, x.Addr, region)
	case *ssa.MapUpdate:
		if m, ok := x.Map.Type().Underlying().(*types.Map); ok {
			d, _ := c.famMapDom(m)
			v, _ := c.famMapVal(m)
			ws.write(d, x.Map, region)
			ws.write(v, x.Map, region)
			ws.write(famMapLen, x.Map, region)
		}
	case *ssa.Alloc, *ssa.MakeMap, *ssa.MakeSlice, *ssa.MakeChan, *ssa.MakeClosure:
		ws.allocs = true
		c.summarizeAllocInit(ws, x, region)
	case *ssa.Send:
		ws.all(famChLen)
	case *ssa.UnOp:
		if x.Op.String() == "<-" {
			ws.all(famChLen)
		}
	case *ssa.Select:
		ws.all(famChLen)
	case *ssa.Call:
		c.summarizeCall(ws, fn, &x.Call, depth, region)
	case *ssa.Defer:
		c.summarizeCall(ws, fn, &x.Call, depth, region)
	case *ssa.Go:
		// the spawned goroutine's writes are not part of this thread's frame;
		// shared cells it captures are made unstable at the go statement itself
		ws.allocs = true
	case *ssa.RunDefers:
		for _, b := range fn.Blocks {
			for _, i2 := range b.Instrs {
				if d, ok := i2.(*ssa.Defer); ok {
					c.summarizeCall(ws, fn, &d.Call, depth, nil)
				}
			}
		}
	}
}

func (c *Ctx) summarizeAllocInit(ws *writeSummary, ins ssa.Instruction, region map[*ssa.BasicBlock]bool) {
	switch x := ins.(type) {
	case *ssa.Alloc:
		if region == nil && !x.Heap {
			return
		}
		el := deref(x.Type())
		switch u := el.Underlying().(type) {
		case *types.Struct:
			for i := 0; i < u.NumFields(); i++ {
				f, _ := c.famField(el, i)
				ws.get(f).freshOnly = true
			}
		case *types.Array:
			f, _ := c.famElem(u.Elem())
			ws.get(f).freshOnly = true
		default:
			f, _ := c.famCell(el)
			ws.get(f).freshOnly = true
		}
	case *ssa.MakeMap:
		if m, ok := x.Type().Underlying().(*types.Map); ok {
			d, _ := c.famMapDom(m)
			v, _ := c.famMapVal(m)
			ws.get(d).freshOnly = true
			ws.get(v).freshOnly = true
			ws.get(famMapLen).freshOnly = true
		}
	case *ssa.MakeSlice:
		if s, ok := x.Type().Underlying().(*types.Slice); ok {
			f, _ := c.famElem(s.Elem())
			ws.get(f).freshOnly = true
		}
	case *ssa.MakeChan:
		ws.get(famChLen).freshOnly = true
		ws.get(famChCap).freshOnly = true
		ws.get(famChClosed).freshOnly = true
	}
}

func (c *Ctx) summarizeStore(ws *writeSummary, addr ssa.Value, region map[*ssa.BasicBlock]bool) {
	switch a := addr.(type) {
	case *ssa.FieldAddr:
		st := deref(a.X.Type())
		// walk up nested by-value field addresses
		if inner, ok := a.X.(*ssa.FieldAddr); ok {
			c.summarizeStore(ws, inner, region)
			return
		}
		if inner, ok := a.X.(*ssa.IndexAddr); ok {
			c.summarizeStore(ws, inner, region)
			return
		}
		f, _ := c.famField(st, a.Field)
		ws.write(f, a.X, region)
	case *ssa.IndexAddr:
		switch u := a.X.Type().Underlying().(type) {
		case *types.Slice:
			f, _ := c.famElem(u.Elem())
			ws.write(f, a.X, region)
		case *types.Pointer:
			if arr, ok := u.Elem().Underlying().(*types.Array); ok {
				f, _ := c.famElem(arr.Elem())
				ws.write(f, a.X, region)
			}
		}
	case *ssa.Global:
		f, _ := c.famGlobal(a)
		ws.all(f)
	default:
		el := deref(addr.Type())
		switch u := el.Underlying().(type) {
		case *types.Struct:
			for i := 0; i < u.NumFields(); i++ {
				f, _ := c.famField(el, i)
				ws.write(f, addr, region)
			}
		case *types.Array:
			f, _ := c.famElem(u.Elem())
			ws.write(f, addr, region)
		default:
			f, _ := c.famCell(el)
			ws.write(f, addr, region)
		}
	}
}

func (c *Ctx) summarizeCall(ws *writeSummary, fn *ssa.Function, call *ssa.CallCommon, depth int, region map[*ssa.BasicBlock]bool) {
	ws.allocs = true
	if call.IsInvoke() {
		key := c.methodKey(call)
		if ct := c.Contracts[key]; ct != nil {
			c.summarizeContract(ws, ct)
			return
		}
		if dyn, ok := c.dispatch[c.ifaceName(call)]; ok {
			if f := c.Prog.LookupMethod(dyn, call.Method.Pkg(), call.Method.Name()); f != nil {
				c.summarizeStatic(ws, f, call, depth, region)
				return
			}
		}
		if c.isRepoType(call.Value.Type()) {
			ws.top = true
			ws.noteTop("summary.go:259")
			return
		}
		c.summarizeExternArgs(ws, call, region)
		return
	}
	switch f := call.Value.(type) {
	case *ssa.Builtin:
		switch f.Name() {
		case "append":
			if s, ok := call.Args[0].Type().Underlying().(*types.Slice); ok {
				fam, _ := c.famElem(s.Elem())
				ws.write(fam, call.Args[0], region)
				ws.get(fam).freshOnly = true
			}
		case "copy":
			if s, ok := call.Args[0].Type().Underlying().(*types.Slice); ok {
				fam, _ := c.famElem(s.Elem())
				ws.write(fam, call.Args[0], region)
			}
		case "delete":
			if m, ok := call.Args[0].Type().Underlying().(*types.Map); ok {
				d, _ := c.famMapDom(m)
				v, _ := c.famMapVal(m)
				ws.write(d, call.Args[0], region)
				ws.write(v, call.Args[0], region)
				ws.write(famMapLen, call.Args[0], region)
			}
		case "close":
			ws.all(famChClosed)
		}
		return
	case *ssa.Function:
		c.summarizeStatic(ws, f, call, depth, region)
		return
	case *ssa.MakeClosure:
		if cf, ok := f.Fn.(*ssa.Function); ok {
			c.summarizeStatic(ws, cf, call, depth, region)
			return
		}
	}
	// call through a function value
	if c.shortType(call.Value.Type()) == "context.CancelFunc" {
		ws.all(famCtxDone)
		return
	}
	ws.top = true
	ws.noteTop("summary.go:305")
}

func (c *Ctx) summarizeStatic(ws *writeSummary, f *ssa.Function, call *ssa.CallCommon, depth int, region map[*ssa.BasicBlock]bool) {
	key := c.FuncKey(f)
	if eff, ok := intrinsicEffects[f.String()]; ok {
		for _, fam := range eff {
			if fam == "guarded" {
				// lock operations make guarded fields unstable
				c.summarizeGuarded(ws, call)
				continue
			}
			ws.all(fam)
		}
		return
	}
	if ct := c.Contracts[key]; ct != nil && (ct.HasModifies || len(f.Blocks) == 0) {
		c.summarizeContractAt(ws, ct, f, call, region)
		return
	}
	if len(f.Blocks) == 0 {
		c.summarizeExternArgs(ws, call, region)
		return
	}
	if depth > 6 {
		ws.top = true
		ws.noteTop("summary.go:330")
		return
	}
	ws.merge(c.funcSummary(f, depth+1))
}

func (c *Ctx) funcSummary(f *ssa.Function, depth int) *writeSummary {
	if s, ok := c.summaries[f]; ok {
		if s == nil {
			// recursion: the recursive call contributes what the function itself contributes
			// (least fixpoint of a union), i.e. nothing new
			return &writeSummary{fams: map[string]*famWrite{}}
		}
		return s
	}
	c.summaries[f] = nil
	s := &writeSummary{fams: map[string]*famWrite{}}
	for _, b := range f.Blocks {
		for _, ins := range b.Instrs {
			c.summarizeInstr(s, f, ins, depth, nil)
		}
	}
	// family-level only
	for _, fw := range s.fams {
		if len(fw.bases) > 0 {
			fw.all = true
			fw.bases = nil
		}
	}
	c.summaries[f] = s
	return s
}

// fieldMapType returns the map type of an annotated field key "<struct type key>|<field>".
func (c *Ctx) fieldMapType(k string) *types.Map {
	return c.fieldMapTypes[k]
}

func (c *Ctx) summarizeGuarded(ws *writeSummary, call *ssa.CallCommon) {
	// every guarded field of every annotated struct becomes unstable
	for k, fm := range c.FieldAnnos {
		if fm.Contents != "" {
			if mt := c.fieldMapType(k); mt != nil {
				dfam, _ := c.famMapDom(mt)
				vfam, _ := c.famMapVal(mt)
				ws.all(dfam)
				ws.all(vfam)
				ws.all(famMapLen)
			}
		}
		if fm.Mode != "guarded_by" {
			continue
		}
		i := strings.LastIndex(k, "|")
		ws.all("H|" + k[:i] + "|" + k[i+1:])
		if fm.Deep {
			ws.top = true
			ws.noteTop("summary.go:386")
		}
	}
}

// summarizeContract translates a modifies clause into families.
func (c *Ctx) summarizeContract(ws *writeSummary, ct *Contract) {
	if !ct.HasModifies {
		if ct.Extern || ct.Opts["iface"] != "" {
			// an assumed contract without modifies clause modifies nothing
			return
		}
		ws.top = true
		ws.noteTop("summary.go:398")
		return
	}
	for _, m := range ct.Modifies {
		switch {
		case m == "heap" || m == "everything":
			ws.top = true
			ws.noteTop("summary.go:404")
		case strings.HasPrefix(m, "ghost "):
			ws.all("GH|" + strings.TrimSpace(m[6:]))
		case strings.HasPrefix(m, "chan "), strings.HasPrefix(m, "guarded "):
			// channel state and lock-protected state are unstable anyway
		case strings.HasPrefix(m, "fam "):
			ws.all(strings.TrimSpace(m[4:]))
		case strings.HasPrefix(m, "fields "), strings.HasPrefix(m, "elems "):
			c.summarizeTypeItem(ws, m)
		default:
			// object-level items are resolved at the call site; at summary level be conservative
			ws.top = true
			ws.noteTop("summary.go:415")
		}
	}
}

func (c *Ctx) summarizeExternArgs(ws *writeSummary, call *ssa.CallCommon, region map[*ssa.BasicBlock]bool) {
	for _, a := range call.Args {
		switch u := a.Type().Underlying().(type) {
		case *types.Map:
			d, _ := c.famMapDom(u)
			v, _ := c.famMapVal(u)
			ws.write(d, a, region)
			ws.write(v, a, region)
			ws.write(famMapLen, a, region)
		case *types.Slice:
			// variadic []any packs are read-only for the callees we meet (fmt, log)
			if _, ok := a.(*ssa.Slice); ok {
				continue
			}
			f, _ := c.famElem(u.Elem())
			ws.write(f, a, region)
		case *types.Pointer:
			if !c.isRepoType(u.Elem()) {
				continue
			}
			c.summarizeStore(ws, a, region)
		}
	}
}

func (c *Ctx) isRepoType(t types.Type) bool {
	switch x := t.(type) {
	case *types.Named:
		if x.Obj().Pkg() != nil && c.ModulePath != "" {
			return strings.HasPrefix(x.Obj().Pkg().Path(), c.ModulePath)
		}
	case *types.Pointer:
		return c.isRepoType(x.Elem())
	}
	return false
}

func (c *Ctx) methodKey(call *ssa.CallCommon) string {
	recv := call.Value.Type()
	name := types.TypeString(recv, func(p *types.Package) string { return p.Path() })
	name = typeArgRe.ReplaceAllString(name, "")
	return "(" + name + ")." + call.Method.Name()
}

// applyHavoc forgets what a write summary may have changed.
func (c *Ctx) applyHavoc(st *State, fr *Frame, ws *writeSummary, region map[*ssa.BasicBlock]bool) {
	if ws.top {
		c.HavocAll(st, true)
		return
	}
	var oldAlloc Term
	if ws.allocs {
		oldAlloc = c.Arr(st, famAlloc, ArraySort(SInt, SBool))
	}
	for _, fam := range sortedKeys(ws.fams) {
		fw := ws.fams[fam]
		if strings.HasPrefix(fam, "G|") {
			c.havocGlobal(st, fam)
			continue
		}
		if fw.all {
			c.HavocFam(st, fam)
			continue
		}
		sort, ok := c.famSorts[fam]
		if !ok {
			if s2, ok2 := builtinFamSort(fam); ok2 {
				sort = s2
			} else {
				// family never touched on this path: nothing known about it anyway
				continue
			}
		}
		// objects named through a field: resolve them now, unless the field itself changes in the region
		var fterms []Term
		fbAll := false
		for _, fb := range fw.fbases {
			ffam, _ := c.famField(fb.strct, fb.field)
			if w, ok := ws.fams[ffam]; ok && (w.all || len(w.bases) > 0 || len(w.fbases) > 0 || w.freshOnly) {
				fbAll = true
				break
			}
			pt, ok := c.reg(fr, fb.ptr, st).(Term)
			if !ok {
				fbAll = true
				break
			}
			si := c.Reg.StructInfo(fb.strct)
			l := &Loc{Kind: LocField, Base: pt, Struct: fb.strct, Field: fb.field, Type: si.ftypes[fb.field], Root: si.ftypes[fb.field]}
			ft := c.LoadLoc(st, l, false)
			if ft.Sort == SSlice {
				ft = T(SInt, "(sl_arr %s)", ft.S)
			}
			fterms = append(fterms, ft)
		}
		if fbAll {
			c.HavocFam(st, fam)
			continue
		}
		old := c.Arr(st, fam, sort)
		if fw.freshOnly {
			// objects allocated before the region keep their contents
			c.HavocFam(st, fam)
			nw := st.arrays[fam]
			al := c.Arr(st, famAlloc, ArraySort(SInt, SBool))
			x := c.Reg.Fresh("q")
			var excl []string
			for _, b := range fw.bases {
				bt := c.baseRef(st, fr, b)
				excl = append(excl, "(not (= "+x+" "+bt.S+"))")
			}
			for _, ft := range fterms {
				excl = append(excl, "(not (= "+x+" "+ft.S+"))")
			}
			cond := "(select " + al.S + " " + x + ")"
			if len(excl) > 0 {
				cond = "(and " + cond + " " + strings.Join(excl, " ") + ")"
			}
			st.Assume(T(SBool, "(forall ((%s Int)) (=> %s (= (select %s %s) (select %s %s))))", x, cond, nw.S, x, old.S, x))
			st.Assume(T(SBool, "(= (select %s 0) (select %s 0))", nw.S, old.S))
			continue
		}
		cur := old
		for _, b := range fw.bases {
			bt := c.baseRef(st, fr, b)
			v := c.FreshConst(st, "hv", arrayElem(sort))
			if fam == famMapLen {
				st.Assume(T(SBool, "(>= %s 0)", v.S))
			}
			cur = Store(cur, bt, v)
		}
		for _, ft := range fterms {
			v := c.FreshConst(st, "hv", arrayElem(sort))
			if fam == famMapLen {
				st.Assume(T(SBool, "(>= %s 0)", v.S))
			}
			cur = Store(cur, ft, v)
		}
		c.SetArr(st, fam, cur)
	}
	if ws.allocs {
		c.HavocFam(st, famAlloc)
		nw := st.arrays[famAlloc]
		x := c.Reg.Fresh("q")
		st.Assume(T(SBool, "(forall ((%s Int)) (=> (select %s %s) (select %s %s)))", x, oldAlloc.S, x, nw.S, x))
	}
}

func (c *Ctx) havocGlobal(st *State, fam string) {
	sort, ok := c.famSorts[fam]
	if !ok {
		return
	}
	st.arrays[fam] = c.FreshConst(st, "g", sort)
}

// baseRef evaluates the object reference of a written base value.
func (c *Ctx) baseRef(st *State, fr *Frame, b ssa.Value) Term {
	v := c.reg(fr, b, st)
	switch x := v.(type) {
	case Term:
		if x.Sort == SSlice {
			return T(SInt, "(sl_arr %s)", x.S)
		}
		return x
	case *Loc:
		return c.LowerLoc(st, x)
	}
	return c.FreshConst(st, "base", SInt)
}

func (c *Ctx) summarizeTypeItem(ws *writeSummary, m string) {
	kind, txt := splitWord(m)
	var pkg *types.Package
	if c.cur != nil && c.cur.fn != nil {
		pkg = c.typesPkgOf(c.cur.fn)
	}
	t, err := c.resolveType(pkg, txt)
	if err != nil {
		ws.top = true
		ws.noteTop("summary.go:563")
		return
	}
	if kind == "elems" {
		f, _ := c.famElem(t)
		ws.all(f)
		return
	}
	if sty, ok := t.Underlying().(*types.Struct); ok {
		for i := 0; i < sty.NumFields(); i++ {
			f, _ := c.famField(t, i)
			ws.all(f)
		}
		return
	}
	ws.top = true
	ws.noteTop("summary.go:578")
}

// summarizeContractAt translates a modifies clause at a call site: items that name a
// parameter of the callee are mapped to the corresponding argument of the call.
func (c *Ctx) summarizeContractAt(ws *writeSummary, ct *Contract, f *ssa.Function, call *ssa.CallCommon, region map[*ssa.BasicBlock]bool) {
	if !ct.HasModifies || f == nil || len(f.Params) != len(call.Args) {
		c.summarizeContract(ws, ct)
		return
	}
	argOf := func(name string) ssa.Value {
		for i, p := range f.Params {
			if p.Name() == name {
				return call.Args[i]
			}
		}
		return nil
	}
	for _, m := range ct.Modifies {
		kind, rest := splitWord(m)
		switch kind {
		case "slice":
			if a := argOf(rest); a != nil {
				if sl, ok := a.Type().Underlying().(*types.Slice); ok {
					fam, _ := c.famElem(sl.Elem())
					ws.write(fam, a, region)
					continue
				}
			}
		case "map":
			if a := argOf(rest); a != nil {
				if mt, ok := a.Type().Underlying().(*types.Map); ok {
					d, _ := c.famMapDom(mt)
					v, _ := c.famMapVal(mt)
					ws.write(d, a, region)
					ws.write(v, a, region)
					ws.write(famMapLen, a, region)
					continue
				}
			}
			if i := strings.IndexByte(rest, '.'); i > 0 {
				// map p.f: the map held by a field of a parameter (all maps of that type, conservatively)
				if a := argOf(rest[:i]); a != nil {
					if sty, ok := deref(a.Type()).Underlying().(*types.Struct); ok {
						done := false
						for k := 0; k < sty.NumFields(); k++ {
							if sty.Field(k).Name() == rest[i+1:] {
								if mt, ok := sty.Field(k).Type().Underlying().(*types.Map); ok {
									d, _ := c.famMapDom(mt)
									v, _ := c.famMapVal(mt)
									if region != nil && baseKind(a, region) == 0 {
										fb := fieldBase{a, deref(a.Type()), k}
										for _, f := range []string{d, v, famMapLen} {
											fw := ws.get(f)
											fw.fbases = append(fw.fbases, fb)
										}
									} else {
										ws.all(d)
										ws.all(v)
										ws.all(famMapLen)
									}
									done = true
								}
							}
						}
						if done {
							continue
						}
					}
				}
			}
		case "fam":
			ws.all(strings.TrimSpace(rest))
			continue
		case "ghost":
			ws.all("GH|" + strings.TrimSpace(rest))
			continue
		case "chan", "guarded":
			continue
		case "fields", "elems":
			c.summarizeTypeItem(ws, m)
			continue
		}
		// param.field
		if i := strings.IndexByte(m, '.'); i > 0 && !strings.ContainsAny(m, " ([") {
			if a := argOf(m[:i]); a != nil {
				stT := deref(a.Type())
				if sty, ok := stT.Underlying().(*types.Struct); ok {
					done := false
					for k := 0; k < sty.NumFields(); k++ {
						if sty.Field(k).Name() == m[i+1:] {
							fam, _ := c.famField(stT, k)
							ws.write(fam, a, region)
							done = true
						}
					}
					if done {
						continue
					}
				}
			}
		}
		ws.top = true
		ws.noteTop("summary.go:649")
	}
}


func (ws *writeSummary) noteTop(where string) {
	if ws.why == "" {
		ws.why = where
	}
}
