package vc

import (
	"fmt"
	"math/big"
	"go/token"
	"go/types"
	"math"
	"strconv"
	"strings"

	"golang.org/x/tools/go/ssa"
)

type specVal struct {
	t   Term
	typ types.Type
}

type specEnv struct {
	c        *Ctx
	st       *State
	vars     map[string]specVal
	results  []Value
	fn       *ssa.Function
	pkg      *types.Package
	post     bool
	callee   bool
	calleeRecs map[string]specVal // call-record terms of a callee's contract seen from a call site: one unknown per term
	old      *State
	oldCache map[*SNode]specVal
	inOld    bool
	loopHead *ssa.BasicBlock
	frame    *Frame
	specPkgPath string
	qdepth   int
	rdepth   int
	resTypes []types.Type
	preAlloc Term
	oldArrays map[string]Term // heap/ghost versions of the pre-state (for old())
	// polarity bookkeeping for the one-directional unfolding of recursive predicates
	pol        int  // +1 positive, -1 negative, 0 unknown/both (after first use it is never 0 at top level)
	assertMode bool // the formula being evaluated is a proof goal (not an assumption)
	polSet     bool
	hoist      map[*SNode]specVal // binder-independent subterms of the quantifier being evaluated
}

// envForFrame builds the environment of the function under verification.
func (c *Ctx) envForFrame(st *State, fr *Frame) *specEnv {
	env := &specEnv{c: c, st: st, vars: map[string]specVal{}, frame: fr}
	run := c.cur
	fn := fr.fn
	env.fn = fn
	env.pkg = c.typesPkgOf(fn)
	for i, p := range fn.Params {
		if v, ok := fr.regs[p]; ok {
			env.vars[p.Name()] = specVal{t: c.toTerm(st, v), typ: p.Type()}
			env.vars[fmt.Sprintf("$%d", i)] = env.vars[p.Name()]
			// entry_<param>: the value the parameter had when the function was called (the plain name
			// follows later assignments to the parameter)
			env.vars["entry_"+p.Name()] = env.vars[p.Name()]
		}
	}
	for _, fv := range fn.FreeVars {
		if v, ok := fr.regs[fv]; ok {
			// captured variables are pointers to cells: expose the cell content under the
			// variable's name and the pointer under &name
			t := c.toTerm(st, v)
			env.vars["&"+fv.Name()] = specVal{t: t, typ: fv.Type()}
			if _, isPtr := fv.Type().Underlying().(*types.Pointer); isPtr && c.isCapturedCell(fv) {
				env.vars[fv.Name()] = specVal{t: c.LoadPtr(st, t, fv.Type(), false), typ: deref(fv.Type())}
			} else {
				env.vars[fv.Name()] = specVal{t: t, typ: fv.Type()}
			}
		}
	}
	if run != nil && fn == run.fn {
		for k, v := range run.lets {
			env.vars[k] = v
		}
		env.oldCache = run.oldCache
		env.oldArrays = run.entryArrays
	}
	// source-level variables seen so far on this path
	for name, dv := range fr.vars {
		if _, exists := env.vars[name]; exists {
			continue
		}
		switch v := dv.val.(type) {
		case Term:
			if dv.isAddr {
				if _, isPtr := dv.typ.Underlying().(*types.Pointer); isPtr {
					env.vars[name] = specVal{t: c.LoadPtr(st, v, dv.typ, false), typ: deref(dv.typ)}
				}
			} else {
				env.vars[name] = specVal{t: v, typ: dv.typ}
			}
		case *Loc:
			if dv.isAddr {
				env.vars[name] = specVal{t: c.LoadLoc(st, v, false), typ: v.Type}
			}
		}
	}
	// named SSA values visible to loop invariants: every register with a source-level name
	for v, val := range fr.regs {
		nm := v.Name()
		if _, isParam := v.(*ssa.Parameter); isParam {
			continue
		}
		if _, isFV := v.(*ssa.FreeVar); isFV {
			continue
		}
		if t, ok := val.(Term); ok {
			if _, exists := env.vars["$"+nm]; !exists {
				env.vars["$"+nm] = specVal{t: t, typ: v.Type()}
			}
		}
	}
	return env
}

// isCapturedCell: free variables of closures are pointers to the captured variables.
func (c *Ctx) isCapturedCell(fv *ssa.FreeVar) bool {
	_, ok := fv.Type().Underlying().(*types.Pointer)
	return ok
}

// evalGoal evaluates a formula that is about to be proved.
func (c *Ctx) evalGoal(env *specEnv, n *SNode) (Term, error) {
	saved, savedPol := env.assertMode, env.pol
	env.assertMode, env.pol = true, 1
	t, err := c.evalBool(env, n)
	env.assertMode, env.pol = saved, savedPol
	return t, err
}

func (c *Ctx) evalBool(env *specEnv, n *SNode) (Term, error) {
	if env.pol == 0 && !env.polSet {
		env.pol, env.polSet = 1, true
	}
	v, err := c.evalSpec(env, n)
	if err != nil {
		return Term{}, err
	}
	if v.t.Sort != SBool {
		return Term{}, fmt.Errorf("expression %s is not boolean", n)
	}
	return v.t, nil
}

var (
	tInt    = types.Typ[types.Int]
	tInt64  = types.Typ[types.Int64]
	tBool   = types.Typ[types.Bool]
	tString = types.Typ[types.String]
	tF64    = types.Typ[types.Float64]
	tAny    = types.NewInterfaceType(nil, nil)
)

func (c *Ctx) evalSpec(env *specEnv, n *SNode) (specVal, error) {
	if env.hoist != nil {
		if v, ok := env.hoist[n]; ok {
			return v, nil
		}
	}
	st := env.st
	switch n.Op {
	case "lit-int":
		bi, ok := new(big.Int).SetString(n.Text, 0)
		if !ok {
			return specVal{}, fmt.Errorf("bad integer literal %s", n.Text)
		}
		return specVal{BigIntLit(bi), tInt}, nil
	case "lit-float":
		f, err := strconv.ParseFloat(n.Text, 64)
		if err != nil {
			return specVal{}, err
		}
		return specVal{F64Lit(f), tF64}, nil
	case "lit-str":
		return specVal{StrLit(n.Text), tString}, nil
	case "lit-bool":
		return specVal{BoolLit(n.Text == "true"), tBool}, nil
	case "nil":
		return specVal{Term{"nil", "nil"}, types.Typ[types.UntypedNil]}, nil
	case "id":
		return c.evalIdent(env, n.Text)
	case "sel":
		// package-qualified identifier?
		if n.Args[0].Op == "id" {
			if _, isVar := env.vars[n.Args[0].Text]; !isVar {
				if p := c.findImport(env.pkg, n.Args[0].Text); p != nil {
					return c.evalPkgObject(env, p, n.Text)
				}
			}
		}
		x, err := c.evalSpec(env, n.Args[0])
		if err != nil {
			return specVal{}, err
		}
		return c.evalField(env, x, n.Text)
	case "idx":
		x, err := c.evalSpec(env, n.Args[0])
		if err != nil {
			return specVal{}, err
		}
		i, err := c.evalSpec(env, n.Args[1])
		if err != nil {
			return specVal{}, err
		}
		return c.evalIndex(env, x, i)
	case "typeassert":
		x, err := c.evalSpec(env, n.Args[0])
		if err != nil {
			return specVal{}, err
		}
		t, err := c.resolveType(env.pkg, n.Type)
		if err != nil {
			return specVal{}, err
		}
		if _, isI := t.Underlying().(*types.Interface); isI {
			return specVal{x.t, t}, nil
		}
		return specVal{c.Unbox(st, x.t, t), t}, nil
	case "un":
		if n.Text == "&" {
			// address of a field reached through a pointer: &p.f
			a := n.Args[0]
			if a.Op != "sel" {
				return specVal{}, fmt.Errorf("& is only supported on field selectors")
			}
			base, err := c.evalSpec(env, a.Args[0])
			if err != nil {
				return specVal{}, err
			}
			stT := deref(base.typ)
			sty, ok := stT.Underlying().(*types.Struct)
			if !ok {
				return specVal{}, fmt.Errorf("&%s: not a struct field", a)
			}
			for i := 0; i < sty.NumFields(); i++ {
				if sty.Field(i).Name() == a.Text {
					l := &Loc{Kind: LocField, Base: base.t, Struct: stT, Field: i, Type: sty.Field(i).Type(), Root: sty.Field(i).Type()}
					return specVal{c.LowerLoc(st, l), types.NewPointer(sty.Field(i).Type())}, nil
				}
			}
			return specVal{}, fmt.Errorf("&%s: no such field", a)
		}
		if n.Text == "!" {
			env.pol = -env.pol
		}
		x, err := c.evalSpec(env, n.Args[0])
		if n.Text == "!" {
			env.pol = -env.pol
		}
		if err != nil {
			return specVal{}, err
		}
		switch n.Text {
		case "!":
			return specVal{Not(x.t), tBool}, nil
		case "-":
			if x.t.Sort == SF64 {
				return specVal{T(SF64, "(fp.neg %s)", x.t.S), x.typ}, nil
			}
			if x.t.Sort == SBV64 {
				return specVal{T(SBV64, "(bvneg %s)", x.t.S), x.typ}, nil
			}
			return specVal{T(SInt, "(- %s)", x.t.S), x.typ}, nil
		case "*":
			if _, ok := x.typ.Underlying().(*types.Pointer); !ok {
				return specVal{}, fmt.Errorf("dereference of non-pointer %s", n.Args[0])
			}
			return specVal{c.LoadPtr(st, x.t, x.typ, false), deref(x.typ)}, nil
		}
	case "bin":
		return c.evalBin(env, n)
	case "call":
		return c.evalCall(env, n)
	case "forall", "exists":
		saved := map[string]specVal{}
		var binders []string
		env.qdepth++
		for _, v := range n.Vars {
			t, err := c.resolveType(env.pkg, v[1])
			if err != nil {
				return specVal{}, err
			}
			if old, ok := env.vars[v[0]]; ok {
				saved[v[0]] = old
			}
			name := fmt.Sprintf("q.%s.%p", v[0], n)
			name = strings.ReplaceAll(name, "0x", "")
			env.vars[v[0]] = specVal{Term{name, c.Reg.SortOf(t)}, t}
			binders = append(binders, fmt.Sprintf("(%s %s)", name, c.Reg.SortOf(t)))
		}
		// subterms that do not mention a bound variable are evaluated once, outside the binder
		// (they get named and keep their side facts; the quantified formula stays small)
		var hoisted []*SNode
		if len(env.st.qbinders) == 0 {
			hoisted = c.hoistClosed(env, n)
		}
		savedB := env.st.qbinders
		env.st.qbinders = append(append([]string(nil), savedB...), binders...)
		body, err := c.evalBool(env, n.Args[0])
		env.st.qbinders = savedB
		for _, h := range hoisted {
			delete(env.hoist, h)
		}
		env.qdepth--
		for _, v := range n.Vars {
			delete(env.vars, v[0])
			if old, ok := saved[v[0]]; ok {
				env.vars[v[0]] = old
			}
		}
		if err != nil {
			return specVal{}, err
		}
		return specVal{T(SBool, "(%s (%s) %s)", n.Op, strings.Join(binders, " "), body.S), tBool}, nil
	case "typelit":
		return specVal{}, fmt.Errorf("type %s used as a value", n.Type)
	}
	return specVal{}, fmt.Errorf("cannot evaluate %s", n)
}

func (c *Ctx) evalIdent(env *specEnv, name string) (specVal, error) {
	if v, ok := env.vars[name]; ok {
		return v, nil
	}
	if name == "result" || strings.HasPrefix(name, "result") {
		idx := 0
		if name != "result" {
			i, err := strconv.Atoi(strings.TrimPrefix(name, "result"))
			if err != nil {
				goto notResult
			}
			idx = i
		}
		if !env.post {
			return specVal{}, fmt.Errorf("%s used outside of a postcondition", name)
		}
		if idx >= len(env.results) {
			return specVal{}, fmt.Errorf("%s: function has only %d results", name, len(env.results))
		}
		var rt types.Type = tAny
		if env.resTypes != nil && idx < len(env.resTypes) {
			rt = env.resTypes[idx]
		} else if env.fn != nil && idx < env.fn.Signature.Results().Len() {
			rt = env.fn.Signature.Results().At(idx).Type()
		}
		return specVal{c.toTerm(env.st, env.results[idx]), rt}, nil
	}
notResult:
	if env.pkg != nil {
		if v, err := c.evalPkgObject(env, env.pkg, name); err == nil {
			return v, nil
		}
	}
	// named results of the function
	if env.fn != nil && env.post {
		rs := env.fn.Signature.Results()
		for i := 0; i < rs.Len(); i++ {
			if rs.At(i).Name() == name && i < len(env.results) {
				return specVal{c.toTerm(env.st, env.results[i]), rs.At(i).Type()}, nil
			}
		}
	}
	return specVal{}, fmt.Errorf("unknown identifier %q", name)
}

func (c *Ctx) evalPkgObject(env *specEnv, p *types.Package, name string) (specVal, error) {
	obj := p.Scope().Lookup(name)
	if obj == nil {
		return specVal{}, fmt.Errorf("no object %s.%s", p.Name(), name)
	}
	switch o := obj.(type) {
	case *types.Const:
		t, ok := c.Reg.Const(o.Val(), o.Type())
		if !ok {
			return specVal{}, fmt.Errorf("constant %s not representable", name)
		}
		typ := o.Type()
		if b, ok := typ.(*types.Basic); ok && b.Info()&types.IsUntyped != 0 {
			typ = types.Default(typ)
		}
		return specVal{t, typ}, nil
	case *types.Var:
		sp := c.Prog.Package(p)
		if sp == nil {
			return specVal{}, fmt.Errorf("package %s not loaded from source", p.Path())
		}
		g, ok := sp.Members[name].(*ssa.Global)
		if !ok {
			return specVal{}, fmt.Errorf("%s is not a package-level variable", name)
		}
		l := &Loc{Kind: LocGlobal, Global: g, Type: o.Type(), Root: o.Type()}
		return specVal{c.LoadLoc(env.st, l, false), o.Type()}, nil
	}
	return specVal{}, fmt.Errorf("%s.%s is not a value", p.Name(), name)
}

func (c *Ctx) findImport(p *types.Package, alias string) *types.Package {
	if p == nil {
		return c.findAnyPackage(alias)
	}
	for _, imp := range p.Imports() {
		if imp.Name() == alias {
			return imp
		}
	}
	if p.Name() == alias || p.Path() == alias {
		return p
	}
	return c.findAnyPackage(alias)
}

func (c *Ctx) findAnyPackage(alias string) *types.Package {
	seen := map[*types.Package]bool{}
	var found *types.Package
	var walk func(p *types.Package)
	walk = func(p *types.Package) {
		if seen[p] || found != nil {
			return
		}
		seen[p] = true
		if p.Name() == alias || p.Path() == alias {
			found = p
			return
		}
		for _, i := range p.Imports() {
			walk(i)
		}
	}
	for _, p := range c.Pkgs {
		walk(p.Types)
	}
	return found
}

// resolveType parses the text of a Go type.
func (c *Ctx) resolveType(p *types.Package, text string) (types.Type, error) {
	text = strings.TrimSpace(text)
	switch {
	case text == "any" || text == "interface{}":
		return tAny, nil
	case text == "error":
		return types.Universe.Lookup("error").Type(), nil
	case text == "struct{}":
		return types.NewStruct(nil, nil), nil
	case strings.HasPrefix(text, "*"):
		t, err := c.resolveType(p, text[1:])
		if err != nil {
			return nil, err
		}
		return types.NewPointer(t), nil
	case strings.HasPrefix(text, "[]"):
		t, err := c.resolveType(p, text[2:])
		if err != nil {
			return nil, err
		}
		return types.NewSlice(t), nil
	case strings.HasPrefix(text, "map["):
		d := 0
		for i := 3; i < len(text); i++ {
			if text[i] == '[' {
				d++
			} else if text[i] == ']' {
				d--
				if d == 0 {
					k, err := c.resolveType(p, text[4:i])
					if err != nil {
						return nil, err
					}
					v, err := c.resolveType(p, text[i+1:])
					if err != nil {
						return nil, err
					}
					return types.NewMap(k, v), nil
				}
			}
		}
		return nil, fmt.Errorf("bad map type %q", text)
	case strings.HasPrefix(text, "chan "):
		t, err := c.resolveType(p, text[5:])
		if err != nil {
			return nil, err
		}
		return types.NewChan(types.SendRecv, t), nil
	case strings.HasPrefix(text, "["):
		i := strings.IndexByte(text, ']')
		n, err := strconv.Atoi(text[1:i])
		if err != nil {
			return nil, err
		}
		t, err := c.resolveType(p, text[i+1:])
		if err != nil {
			return nil, err
		}
		return types.NewArray(t, int64(n)), nil
	}
	// generic instantiation
	var targs []types.Type
	if i := strings.IndexByte(text, '['); i > 0 && strings.HasSuffix(text, "]") {
		for _, a := range splitTop(text[i+1:len(text)-1], ',') {
			t, err := c.resolveType(p, a)
			if err != nil {
				return nil, err
			}
			targs = append(targs, t)
		}
		text = text[:i]
	}
	if obj := types.Universe.Lookup(text); obj != nil {
		if tn, ok := obj.(*types.TypeName); ok {
			return tn.Type(), nil
		}
	}
	var obj types.Object
	if i := strings.LastIndexByte(text, '.'); i > 0 {
		ip := c.findImport(p, text[:i])
		if ip == nil {
			return nil, fmt.Errorf("unknown package %q in type %q", text[:i], text)
		}
		obj = ip.Scope().Lookup(text[i+1:])
	} else if p != nil {
		obj = p.Scope().Lookup(text)
	}
	tn, ok := obj.(*types.TypeName)
	if !ok {
		return nil, fmt.Errorf("unknown type %q", text)
	}
	if len(targs) > 0 {
		return types.Instantiate(nil, tn.Type(), targs, false)
	}
	return tn.Type(), nil
}

func (c *Ctx) evalField(env *specEnv, x specVal, name string) (specVal, error) {
	st := env.st
	t := x.typ
	viaPtr := false
	if p, ok := t.Underlying().(*types.Pointer); ok {
		t = p.Elem()
		viaPtr = true
	}
	if _, ok := t.Underlying().(*types.Struct); !ok {
		return specVal{}, fmt.Errorf("selector .%s on non-struct type %s", name, x.typ)
	}
	obj, index, _ := types.LookupFieldOrMethod(t, true, nil, name)
	if obj == nil {
		// unexported field of another package: look it up by hand
		sty := t.Underlying().(*types.Struct)
		for i := 0; i < sty.NumFields(); i++ {
			if sty.Field(i).Name() == name {
				obj, index = sty.Field(i), []int{i}
			}
		}
	}
	fv, ok := obj.(*types.Var)
	if !ok || len(index) == 0 {
		return specVal{}, fmt.Errorf("type %s has no field %s", t, name)
	}
	if viaPtr {
		sty := t
		si := c.Reg.StructInfo(sty)
		l := &Loc{Kind: LocField, Base: x.t, Struct: sty, Field: index[0], Type: si.ftypes[index[0]], Root: si.ftypes[index[0]], Path: index[1:]}
		v := c.LoadLoc(st, l, false)
		if o, isPtrField := fv.Type().Underlying().(*types.Pointer); isPtrField {
			_ = o
			st.owners[v.S] = ownerInfo{Struct: sty, Obj: x.t, Field: name}
		}
		return specVal{v, fv.Type()}, nil
	}
	cur := x.t
	ct := t
	for _, i := range index {
		si := c.Reg.StructInfo(ct)
		cur = T(c.Reg.SortOf(si.ftypes[i]), "(%s %s)", si.fields[i], cur.S)
		ct = si.ftypes[i]
	}
	return specVal{cur, fv.Type()}, nil
}

func (c *Ctx) evalIndex(env *specEnv, x, i specVal) (specVal, error) {
	st := env.st
	switch u := x.typ.Underlying().(type) {
	case *types.Slice:
		fam, sort := c.famElem(u.Elem())
		arr := c.Arr(st, fam, sort)
		return specVal{T(c.Reg.SortOf(u.Elem()), "(select (select %s (sl_arr %s)) (sidx %s %s))", arr.S, x.t.S, x.t.S, i.t.S), u.Elem()}, nil
	case *types.Map:
		k := c.coerce(st, i, u.Key())
		v, _ := c.mapLookup(st, x.t, k, u, false)
		return specVal{v, u.Elem()}, nil
	case *types.Array:
		return specVal{Select(x.t, i.t), u.Elem()}, nil
	case *types.Basic:
		return specVal{T(SInt, "(str.to_code (str.at %s %s))", x.t.S, i.t.S), types.Typ[types.Uint8]}, nil
	}
	return specVal{}, fmt.Errorf("cannot index type %s", x.typ)
}

// coerce adapts a spec value to the expected Go type (boxing, nil, int->float literal).
func (c *Ctx) coerce(st *State, v specVal, want types.Type) Term {
	ws := c.Reg.SortOf(want)
	if v.t.Sort == "nil" {
		return c.Reg.Zero(want)
	}
	if v.t.Sort == ws {
		return v.t
	}
	if ws == SAny {
		return c.Box(st, v.t, v.typ)
	}
	if ws == SF64 && v.t.Sort == SInt {
		return T(SF64, "((_ to_fp 11 53) RNE (to_real %s))", v.t.S)
	}
	return v.t
}

func (c *Ctx) evalBin(env *specEnv, n *SNode) (specVal, error) {
	op := n.Text
	switch op {
	case "&&", "||", "==>", "<==>":
		savedPol := env.pol
		if op == "==>" {
			env.pol = -savedPol
		} else if op == "<==>" {
			env.pol = 0
		}
		a, err := c.evalBool(env, n.Args[0])
		env.pol = savedPol
		if err != nil {
			return specVal{}, err
		}
		if op == "<==>" {
			env.pol = 0
		}
		b, err := c.evalBool(env, n.Args[1])
		env.pol = savedPol
		if err != nil {
			return specVal{}, err
		}
		switch op {
		case "&&":
			return specVal{And(a, b), tBool}, nil
		case "||":
			return specVal{Or(a, b), tBool}, nil
		case "==>":
			return specVal{Implies(a, b), tBool}, nil
		default:
			return specVal{T(SBool, "(= %s %s)", a.S, b.S), tBool}, nil
		}
	}
	savedPol2 := env.pol
	env.pol = 0
	a, err := c.evalSpec(env, n.Args[0])
	if err != nil {
		env.pol = savedPol2
		return specVal{}, err
	}
	b, err := c.evalSpec(env, n.Args[1])
	env.pol = savedPol2
	if err != nil {
		return specVal{}, err
	}
	st := env.st
	// reconcile sorts
	if a.t.Sort == "nil" && b.t.Sort == "nil" {
		return specVal{BoolLit(op == "=="), tBool}, nil
	}
	if a.t.Sort == "nil" {
		a = specVal{c.Reg.Zero(b.typ), b.typ}
	}
	if b.t.Sort == "nil" {
		b = specVal{c.Reg.Zero(a.typ), a.typ}
	}
	if a.t.Sort == SBV64 && b.t.Sort == SInt {
		if bv, ok := IntTermToBV(b.t); ok {
			b = specVal{bv, a.typ}
		}
	}
	if b.t.Sort == SBV64 && a.t.Sort == SInt {
		if bv, ok := IntTermToBV(a.t); ok {
			a = specVal{bv, b.typ}
		}
	}
	if a.t.Sort != b.t.Sort {
		switch {
		case a.t.Sort == SAny:
			b = specVal{c.Box(st, b.t, b.typ), a.typ}
		case b.t.Sort == SAny:
			a = specVal{c.Box(st, a.t, a.typ), b.typ}
		case a.t.Sort == SF64 && b.t.Sort == SInt:
			b = specVal{c.coerce(st, b, tF64), tF64}
		case b.t.Sort == SF64 && a.t.Sort == SInt:
			a = specVal{c.coerce(st, a, tF64), tF64}
		default:
			return specVal{}, fmt.Errorf("operands of %s have different sorts (%s vs %s) in %s", op, a.t.Sort, b.t.Sort, n)
		}
	}
	tok := map[string]token.Token{"==": token.EQL, "!=": token.NEQ, "<": token.LSS, "<=": token.LEQ, ">": token.GTR, ">=": token.GEQ,
		"+": token.ADD, "-": token.SUB, "*": token.MUL, "/": token.QUO, "%": token.REM}[op]
	if a.t.Sort == SSlice && (op == "==" || op == "!=") {
		r := Eq(a.t, b.t)
		if op == "!=" {
			r = Not(r)
		}
		return specVal{r, tBool}, nil
	}
	rt := a.typ
	switch tok {
	case token.EQL, token.NEQ, token.LSS, token.LEQ, token.GTR, token.GEQ:
		rt = tBool
	}
	if a.t.Sort == SInt && (tok == token.QUO || tok == token.REM) {
		// spec-level division: mathematical (Euclidean) division, no obligation
		if tok == token.QUO {
			return specVal{T(SInt, "(div %s %s)", a.t.S, b.t.S), a.typ}, nil
		}
		return specVal{T(SInt, "(mod %s %s)", a.t.S, b.t.S), a.typ}, nil
	}
	r := c.binop(st, nil, nil, tok, a.t, b.t, a.typ, rt)
	return specVal{r, rt}, nil
}

func (c *Ctx) evalCall(env *specEnv, n *SNode) (specVal, error) {
	st := env.st
	argv := func(i int) (specVal, error) {
		if i >= len(n.Args) {
			return specVal{}, fmt.Errorf("%s: missing argument %d", n.Text, i)
		}
		return c.evalSpec(env, n.Args[i])
	}
	typeArg := func(i int) (types.Type, error) {
		if i >= len(n.Args) {
			return nil, fmt.Errorf("%s: missing type argument", n.Text)
		}
		a := n.Args[i]
		if txt, ok := typeTextOf(a); ok {
			return c.resolveType(env.pkg, txt)
		}
		return nil, fmt.Errorf("%s: argument %d is not a type", n.Text, i)
	}
	switch n.Text {
	case "at":
		// at(<snapshot>, e): e evaluated in the heap recorded by `site ... snapshot <snapshot>`
		if len(n.Args) != 2 || n.Args[0].Op != "id" {
			return specVal{}, fmt.Errorf("at expects a snapshot name and an expression")
		}
		snap, ok := st.snaps[n.Args[0].Text]
		if !ok {
			return specVal{}, fmt.Errorf("snapshot %q has not been taken on this path", n.Args[0].Text)
		}
		{
			cur := st.arrays
			tmp := make(map[string]Term, len(cur))
			for fam, t := range cur {
				if o, ok := snap[fam]; ok {
					tmp[fam] = o
				} else if e, ok := st.entry[fam]; ok {
					tmp[fam] = e
				} else {
					tmp[fam] = t
				}
			}
			st.arrays = tmp
			v, err := c.evalSpec(env, n.Args[1])
			for fam, t := range tmp {
				if _, ok := cur[fam]; !ok {
					cur[fam] = t
				}
			}
			st.arrays = cur
			return v, err
		}
	case "old":
		if env.oldArrays != nil {
			// evaluate in the pre-state: the heap and ghost families have their versions of
			// that moment (a family first touched later still had its first version then);
			// identifiers (parameters, results, bound variables) keep their meaning
			cur := st.arrays
			tmp := make(map[string]Term, len(cur))
			for fam, t := range cur {
				if o, ok := env.oldArrays[fam]; ok {
					tmp[fam] = o
				} else if e, ok := st.entry[fam]; ok {
					tmp[fam] = e
				} else {
					tmp[fam] = t
				}
			}
			for fam, o := range env.oldArrays {
				tmp[fam] = o
			}
			st.arrays = tmp
			v, err := c.evalSpec(env, n.Args[0])
			// families materialised during this evaluation exist in the current state too
			for fam, t := range tmp {
				if _, ok := cur[fam]; !ok {
					cur[fam] = t
				}
			}
			st.arrays = cur
			return v, err
		}
		if env.oldCache != nil {
			if v, ok := env.oldCache[n]; ok {
				return v, nil
			}
		}
		if env.old != nil {
			// evaluate in the pre-state; families created there are shared by name
			saved := env.st
			env.st = env.old
			v, err := c.evalSpec(env, n.Args[0])
			env.st = saved
			return v, err
		}
		if !env.post {
			return argv(0) // in a precondition old(e) = e
		}
		return specVal{}, fmt.Errorf("old(%s) was not captured at entry", n.Args[0])
	case "len":
		x, err := argv(0)
		if err != nil {
			return specVal{}, err
		}
		switch x.typ.Underlying().(type) {
		case *types.Slice:
			return specVal{T(SInt, "(sl_len %s)", x.t.S), tInt}, nil
		case *types.Map:
			return specVal{c.mapLen(st, x.t, false), tInt}, nil
		case *types.Basic:
			return specVal{T(SInt, "(str.len %s)", x.t.S), tInt}, nil
		case *types.Chan:
			return specVal{Select(c.Arr(st, famChLen, ArraySort(SInt, SInt)), x.t), tInt}, nil
		}
		return specVal{}, fmt.Errorf("len of %s", x.typ)
	case "cap":
		x, err := argv(0)
		if err != nil {
			return specVal{}, err
		}
		if _, ok := x.typ.Underlying().(*types.Slice); ok {
			return specVal{T(SInt, "(sl_cap %s)", x.t.S), tInt}, nil
		}
		return specVal{Select(c.Arr(st, famChCap, ArraySort(SInt, SInt)), x.t), tInt}, nil
	case "typeis":
		x, err := argv(0)
		if err != nil {
			return specVal{}, err
		}
		t, err := typeArg(1)
		if err != nil {
			return specVal{}, err
		}
		return specVal{c.TagIs(x.t, t), tBool}, nil
	case "indom":
		m, err := argv(0)
		if err != nil {
			return specVal{}, err
		}
		k, err := argv(1)
		if err != nil {
			return specVal{}, err
		}
		mt, ok := m.typ.Underlying().(*types.Map)
		if !ok {
			return specVal{}, fmt.Errorf("indom on non-map %s", m.typ)
		}
		_, in := c.mapLookup(st, m.t, c.coerce(st, k, mt.Key()), mt, false)
		return specVal{in, tBool}, nil
	case "held":
		x, err := argv(0)
		if err != nil {
			return specVal{}, err
		}
		return specVal{Select(c.Arr(st, famHeld, ArraySort(SInt, SBool)), x.t), tBool}, nil
	case "chlen", "chcap":
		x, err := argv(0)
		if err != nil {
			return specVal{}, err
		}
		fam := famChLen
		if n.Text == "chcap" {
			fam = famChCap
		}
		return specVal{Select(c.Arr(st, fam, ArraySort(SInt, SInt)), x.t), tInt}, nil
	case "closed":
		x, err := argv(0)
		if err != nil {
			return specVal{}, err
		}
		return specVal{Select(c.Arr(st, famChClosed, ArraySort(SInt, SBool)), x.t), tBool}, nil
	case "lockinv":
		// lockinv(x): the lock invariant declared for the struct type of x holds for x
		x, err := argv(0)
		if err != nil {
			return specVal{}, err
		}
		stT := deref(x.typ)
		li := c.LockInvs[c.Reg.TypeKey(stT)]
		if li == nil {
			return specVal{}, fmt.Errorf("no lock invariant declared for %s", stT)
		}
		ienv, _ := c.lockInvEnv(st, ownerInfo{Struct: stT, Obj: x.t, Field: li.Lock})
		if ienv == nil {
			return specVal{}, fmt.Errorf("lock invariant of %s not available", stT)
		}
		ienv.pol, ienv.polSet, ienv.assertMode = env.pol, true, env.assertMode
		acc := True
		for _, cl := range li.Clauses {
			t, err := c.evalBool(ienv, cl.Expr)
			if err != nil {
				return specVal{}, err
			}
			acc = And(acc, t)
		}
		return specVal{acc, tBool}, nil
	case "lastsent":
		// lastsent(ch): the value most recently sent on ch on this path (arbitrary if none)
		x, err := argv(0)
		if err != nil {
			return specVal{}, err
		}
		cht, ok := x.typ.Underlying().(*types.Chan)
		if !ok {
			return specVal{}, fmt.Errorf("lastsent on non-channel")
		}
		if v, ok := c.lookupSent(st, x.t); ok {
			return specVal{v, cht.Elem()}, nil
		}
		return specVal{c.FreshConst(st, "nosend", c.Reg.SortOf(cht.Elem())), cht.Elem()}, nil
	case "sentnow":
		// sentnow(ch): a send on ch happened on this path
		x, err := argv(0)
		if err != nil {
			return specVal{}, err
		}
		return specVal{Select(c.Arr(st, "SentNow", ArraySort(SInt, SBool)), x.t), tBool}, nil
	case "waited":
		// waited(wg): WaitGroup.Wait() on wg has returned on this path
		x, err := argv(0)
		if err != nil {
			return specVal{}, err
		}
		return specVal{Select(c.Arr(st, "Waited", ArraySort(SInt, SBool)), x.t), tBool}, nil
	case "tokens":
		x, err := argv(0)
		if err != nil {
			return specVal{}, err
		}
		return specVal{Select(c.Arr(st, famWg, ArraySort(SInt, SInt)), x.t), tInt}, nil
	case "ctxdone":
		x, err := argv(0)
		if err != nil {
			return specVal{}, err
		}
		return specVal{Select(c.Arr(st, famCtxDone, ArraySort(SInt, SBool)), c.ctxID(st, x.t)), tBool}, nil
	case "allocated":
		x, err := argv(0)
		if err != nil {
			return specVal{}, err
		}
		r := x.t
		if r.Sort == SSlice {
			r = T(SInt, "(sl_arr %s)", r.S)
		}
		return specVal{Select(c.Arr(st, famAlloc, ArraySort(SInt, SBool)), r), tBool}, nil
	case "cancels":
		// cancels(f, ctx): calling the cancel function f marks context ctx done
		f, err := argv(0)
		if err != nil {
			return specVal{}, err
		}
		x, err := argv(1)
		if err != nil {
			return specVal{}, err
		}
		c.Reg.DeclFun("cancel_ctx", []Sort{SInt}, SInt)
		return specVal{T(SBool, "(= (cancel_ctx %s) %s)", f.t.S, c.ctxID(st, x.t).S), tBool}, nil
	case "atomicval":
		// atomicval(&x.flag): the last value this goroutine observed / stored in an atomic.Bool
		x, err := argv(0)
		if err != nil {
			return specVal{}, err
		}
		return specVal{Select(c.Arr(st, famAtomicBool, ArraySort(SInt, SBool)), x.t), tBool}, nil
	case "nolocks":
		// no annotated lock is held by the executing goroutine at this point (tracked per path)
		h := c.Arr(st, famHeld, ArraySort(SInt, SBool))
		return specVal{Eq(h, ConstArray(ArraySort(SInt, SBool), False)), tBool}, nil
	case "called":
		// called(Callee, siteOrdinal): that call was executed on the current path
		if len(n.Args) != 2 || n.Args[1].Op != "lit-int" {
			return specVal{}, fmt.Errorf("called(callee, site) expects a literal ordinal")
		}
		name, ok := typeTextOf(n.Args[0])
		if !ok {
			return specVal{}, fmt.Errorf("called: bad callee name")
		}
		if env.calleeRecs != nil {
			return c.calleeRec(env, n, tBool), nil
		}
		_, ok = st.callArgs[name+"#"+n.Args[1].Text]
		return specVal{BoolLit(ok), tBool}, nil
	case "callrecv":
		// callrecv(Method, siteOrdinal): the interface value that method call was made on
		if len(n.Args) != 2 || n.Args[1].Op != "lit-int" {
			return specVal{}, fmt.Errorf("callrecv(method, site) expects a literal ordinal")
		}
		{
			name, ok := typeTextOf(n.Args[0])
			if !ok {
				return specVal{}, fmt.Errorf("callrecv: bad method name")
			}
			if env.calleeRecs != nil {
				return c.calleeRec(env, n, tAny), nil
			}
			vals, ok := st.callArgs["recv:"+name+"#"+n.Args[1].Text]
			if !ok || len(vals) == 0 {
				return specVal{c.FreshConst(st, "nocall", SAny), tAny}, nil
			}
			return specVal{c.toTerm(st, vals[0]), tAny}, nil
		}
	case "callarg":
		// callarg(Callee, siteOrdinal, k): the k-th argument (receiver excluded for interface
		// calls) of that call on the current path
		if len(n.Args) != 3 || n.Args[1].Op != "lit-int" || n.Args[2].Op != "lit-int" {
			return specVal{}, fmt.Errorf("callarg(callee, site, index) expects literal ordinals")
		}
		name, ok := typeTextOf(n.Args[0])
		if !ok {
			return specVal{}, fmt.Errorf("callarg: bad callee name")
		}
		idx, _ := strconv.Atoi(n.Args[2].Text)
		atyp := c.typeOfCallArg(env, name, n.Args[1].Text, idx)
		if env.calleeRecs != nil {
			return c.calleeRec(env, n, atyp), nil
		}
		vals, ok := st.callArgs[name+"#"+n.Args[1].Text]
		if !ok || idx >= len(vals) {
			return specVal{c.FreshConst(st, "nocall", c.Reg.SortOf(atyp)), atyp}, nil
		}
		return specVal{c.toTerm(st, vals[idx]), atyp}, nil
	case "callres":
		// callres(Callee, siteOrdinal, k): the k-th result of that call on the current path
		if len(n.Args) != 3 || n.Args[1].Op != "lit-int" || n.Args[2].Op != "lit-int" {
			return specVal{}, fmt.Errorf("callres(callee, site, index) expects literal ordinals")
		}
		name, ok := typeTextOf(n.Args[0])
		if !ok {
			return specVal{}, fmt.Errorf("callres: bad callee name")
		}
		key := name + "#" + n.Args[1].Text
		idx, _ := strconv.Atoi(n.Args[2].Text)
		rtyp := c.typeOfCallRes(env, name, n.Args[1].Text, idx)
		if env.calleeRecs != nil {
			return c.calleeRec(env, n, rtyp), nil
		}
		vals, ok := st.callResults[key]
		if !ok || idx >= len(vals) {
			// the call did not happen on this path: an arbitrary value of the right type
			return specVal{c.FreshConst(st, "nocall", c.Reg.SortOf(rtyp)), rtyp}, nil
		}
		t := c.toTerm(st, vals[idx])
		return specVal{t, rtyp}, nil
	case "fresh":
		// fresh(x): x was allocated by the call (it did not exist in the pre-state)
		x, err := argv(0)
		if err != nil {
			return specVal{}, err
		}
		r := x.t
		if r.Sort == SSlice {
			r = T(SInt, "(sl_arr %s)", r.S)
		}
		pre := env.preAlloc
		if pre.S == "" && c.cur != nil {
			pre = c.cur.entryAlloc
		}
		if pre.S == "" {
			return specVal{}, fmt.Errorf("fresh() outside of a postcondition")
		}
		return specVal{And(Not(Select(pre, r)), Select(c.Arr(st, famAlloc, ArraySort(SInt, SBool)), r)), tBool}, nil
	case "isNaN":
		x, err := argv(0)
		if err != nil {
			return specVal{}, err
		}
		return specVal{T(SBool, "(fp.isNaN %s)", x.t.S), tBool}, nil
	case "isInf":
		x, err := argv(0)
		if err != nil {
			return specVal{}, err
		}
		return specVal{T(SBool, "(fp.isInfinite %s)", x.t.S), tBool}, nil
	case "isPosInf":
		x, err := argv(0)
		if err != nil {
			return specVal{}, err
		}
		return specVal{T(SBool, "(and (fp.isInfinite %s) (fp.isPositive %s))", x.t.S, x.t.S), tBool}, nil
	case "isNegInf":
		x, err := argv(0)
		if err != nil {
			return specVal{}, err
		}
		return specVal{T(SBool, "(and (fp.isInfinite %s) (fp.isNegative %s))", x.t.S, x.t.S), tBool}, nil
	case "trunc":
		// the mathematical integer obtained by truncating a float toward zero
		x, err := argv(0)
		if err != nil {
			return specVal{}, err
		}
		if c.Reg.IntBV {
			return specVal{T(SBV64, "((_ fp.to_sbv 64) RTZ %s)", x.t.S), tInt64}, nil
		}
		c.Reg.DeclFun("spec_trunc", []Sort{SF64}, SInt)
		r := T(SInt, "(spec_trunc %s)", x.t.S)
		st.Assume(T(SBool, "(=> (and (not (fp.isNaN %s)) (not (fp.isInfinite %s))) (= (to_real %s) (fp.to_real (fp.roundToIntegral RTZ %s))))", x.t.S, x.t.S, r.S, x.t.S))
		return specVal{r, tInt64}, nil
	case "real":
		x, err := argv(0)
		if err != nil {
			return specVal{}, err
		}
		if x.t.Sort == SInt {
			return specVal{T("Real", "(to_real %s)", x.t.S), tF64}, nil
		}
		return specVal{T("Real", "(fp.to_real %s)", x.t.S), tF64}, nil
	case "float64":
		x, err := argv(0)
		if err != nil {
			return specVal{}, err
		}
		if x.t.Sort == SInt || x.t.Sort == SBV64 {
			return specVal{c.intToFloat(st, x.t, SF64), tF64}, nil
		}
		return specVal{x.t, tF64}, nil
	case "int", "int64", "int32", "uint64", "uint", "string", "bool":
		x, err := argv(0)
		if err != nil {
			return specVal{}, err
		}
		t, _ := c.resolveType(env.pkg, n.Text)
		return specVal{x.t, t}, nil
	case "any":
		x, err := argv(0)
		if err != nil {
			return specVal{}, err
		}
		return specVal{c.Box(st, x.t, x.typ), tAny}, nil
	case "zero":
		t, err := typeArg(0)
		if err != nil {
			return specVal{}, err
		}
		return specVal{c.Reg.Zero(t), t}, nil
	case "ite":
		cnd, err := c.evalBool(env, n.Args[0])
		if err != nil {
			return specVal{}, err
		}
		a, err := argv(1)
		if err != nil {
			return specVal{}, err
		}
		b, err := argv(2)
		if err != nil {
			return specVal{}, err
		}
		if b.t.Sort == "nil" {
			b = specVal{c.Reg.Zero(a.typ), a.typ}
		}
		if a.t.Sort == "nil" {
			a = specVal{c.Reg.Zero(b.typ), b.typ}
		}
		return specVal{Ite(cnd, a.t, b.t), a.typ}, nil
	case "visitedin":
		// visitedin(N, k): has the map-range loop number N of this function already visited key k?
		if len(n.Args) != 2 || n.Args[0].Op != "lit-int" {
			return specVal{}, fmt.Errorf("visitedin(loop, key) expects a literal loop number")
		}
		{
			if env.frame == nil {
				return specVal{}, fmt.Errorf("visitedin() outside of a function body")
			}
			want, _ := strconv.Atoi(n.Args[0].Text)
			li := c.loopsOf(env.frame.fn)
			var it *RangeIter
			for v, val := range env.frame.regs {
				ri, ok := val.(*RangeIter)
				if !ok || !ri.IsMap {
					continue
				}
				for _, ref := range *v.Referrers() {
					if nx, ok := ref.(*ssa.Next); ok && li.heads[nx.Block()] == want {
						it = ri
					}
				}
			}
			if it == nil {
				return specVal{}, fmt.Errorf("visitedin: loop %d is not a map range loop that has been entered", want)
			}
			k, err := argv(1)
			if err != nil {
				return specVal{}, err
			}
			return specVal{Select(st.arrays[it.Visited], c.coerce(st, k, it.K)), tBool}, nil
		}
	case "visited":
		// visited(k): has the enclosing map-range loop already visited key k?
		k, err := argv(0)
		if err != nil {
			return specVal{}, err
		}
		it := c.findIter(env)
		if it == nil {
			return specVal{}, fmt.Errorf("visited() outside of a map range loop")
		}
		vis := st.arrays[it.Visited]
		return specVal{Select(vis, c.coerce(st, k, it.K)), tBool}, nil
	case "subslice":
		// subslice(s, lo, hi): the slice expression s[lo:hi], as the program computes it
		if len(n.Args) != 3 {
			return specVal{}, fmt.Errorf("subslice expects a slice and two bounds")
		}
		{
			sv, err := argv(0)
			if err != nil {
				return specVal{}, err
			}
			lo, err := argv(1)
			if err != nil {
				return specVal{}, err
			}
			hi, err := argv(2)
			if err != nil {
				return specVal{}, err
			}
			if sv.t.Sort != SSlice {
				return specVal{}, fmt.Errorf("subslice: first argument is not a slice")
			}
			return specVal{T(SSlice, "(mk_slice (sl_arr %s) (+ (sl_off %s) %s) (- %s %s) (- (sl_cap %s) %s))", sv.t.S, sv.t.S, lo.t.S, hi.t.S, lo.t.S, sv.t.S, lo.t.S), sv.typ}, nil
		}
	case "sprintf":
		// the model of fmt.Sprintf: sprintf(format, a1, ...) with the arguments boxed as any
		if len(n.Args) < 1 || len(n.Args) > 7 {
			return specVal{}, fmt.Errorf("sprintf expects a format and at most 6 arguments")
		}
		var parts []string
		sorts := []Sort{SString}
		for i := range n.Args {
			v, err := argv(i)
			if err != nil {
				return specVal{}, err
			}
			if i == 0 {
				parts = append(parts, v.t.S)
				continue
			}
			parts = append(parts, c.coerce(st, v, types.NewInterfaceType(nil, nil)).S)
			sorts = append(sorts, SAny)
		}
		fn := fmt.Sprintf("sprintf_%d", len(n.Args)-1)
		c.Reg.DeclFun(fn, sorts, SString)
		return specVal{T(SString, "(%s %s)", fn, strings.Join(parts, " ")), types.Typ[types.String]}, nil
	case "strcontains", "strprefix", "strsuffix":
		a, err := argv(0)
		if err != nil {
			return specVal{}, err
		}
		b, err := argv(1)
		if err != nil {
			return specVal{}, err
		}
		fn := map[string]string{"strcontains": "str.contains", "strprefix": "str.prefixof", "strsuffix": "str.suffixof"}[n.Text]
		if n.Text == "strcontains" {
			return specVal{T(SBool, "(%s %s %s)", fn, a.t.S, b.t.S), tBool}, nil
		}
		return specVal{T(SBool, "(%s %s %s)", fn, b.t.S, a.t.S), tBool}, nil
	case "inre":
		// inre(s, "regex"): membership in a Go regular expression (subset translated to SMT)
		a, err := argv(0)
		if err != nil {
			return specVal{}, err
		}
		if len(n.Args) < 2 || n.Args[1].Op != "lit-str" {
			return specVal{}, fmt.Errorf("inre needs a literal pattern")
		}
		re, err := regexToSMT(n.Args[1].Text)
		if err != nil {
			return specVal{}, err
		}
		return specVal{T(SBool, "(str.in_re %s %s)", a.t.S, re), tBool}, nil
	}
	// pure / predicate / ghost
	if pd := c.lookupPure(env.pkg, n.Text); pd != nil {
		return c.evalPure(env, pd, n)
	}
	if gd, ok := c.Ghosts[n.Text]; ok {
		return c.evalGhost(env, gd, n)
	}
	// type conversion T(x) for named types
	if len(n.Args) == 1 {
		if t, err := c.resolveType(env.pkg, n.Text); err == nil {
			x, err := argv(0)
			if err != nil {
				return specVal{}, err
			}
			if _, isI := t.Underlying().(*types.Interface); isI && x.t.Sort != SAny {
				return specVal{c.Box(st, x.t, x.typ), t}, nil
			}
			return specVal{x.t, t}, nil
		}
	}
	return specVal{}, fmt.Errorf("unknown spec function %q (pkg %v, %d defs, %d args)", n.Text, env.pkg, len(c.Pures[n.Text]), len(n.Args))
}

func (c *Ctx) findIter(env *specEnv) *RangeIter {
	if env.frame == nil {
		return nil
	}
	var only *RangeIter
	n := 0
	for v, val := range env.frame.regs {
		if it, ok := val.(*RangeIter); ok && it.IsMap {
			if env.loopHead != nil {
				// the iterator whose Next is in the loop head block
				for _, ins := range env.loopHead.Instrs {
					if nx, ok := ins.(*ssa.Next); ok && nx.Iter == v {
						return it
					}
				}
			}
			only = it
			n++
		}
	}
	if n == 1 {
		return only
	}
	if env.loopHead != nil {
		// an inner loop without its own map iterator: the nearest enclosing map-range loop
		var best *RangeIter
		var bestB *ssa.BasicBlock
		for v, val := range env.frame.regs {
			it, ok := val.(*RangeIter)
			if !ok || !it.IsMap {
				continue
			}
			for _, ref := range *v.Referrers() {
				nx, ok := ref.(*ssa.Next)
				if !ok || !nx.Block().Dominates(env.loopHead) {
					continue
				}
				if bestB == nil || bestB.Dominates(nx.Block()) {
					best, bestB = it, nx.Block()
				}
			}
		}
		return best
	}
	return nil
}

// lookupPure resolves a pure/pred name: the definition of the package the expression is
// evaluated in wins, then a definition of a package it imports, then a unique definition.
func (c *Ctx) lookupPure(pkg *types.Package, name string) *PureDef {
	defs := c.Pures[name]
	if len(defs) == 0 {
		return nil
	}
	for _, d := range defs {
		if d.Pkg == pkg {
			return d
		}
	}
	if pkg != nil {
		for _, d := range defs {
			for _, imp := range pkg.Imports() {
				if d.Pkg == imp {
					return d
				}
			}
		}
	}
	return defs[0]
}

func (c *Ctx) evalPure(env *specEnv, pd *PureDef, n *SNode) (specVal, error) {
	if len(n.Args) != len(pd.Params) {
		return specVal{}, fmt.Errorf("%s expects %d arguments", pd.Name, len(pd.Params))
	}
	pkg := env.pkg
	if pd.Pkg != nil {
		pkg = pd.Pkg
	}
	var args []specVal
	for i, a := range n.Args {
		v, err := c.evalSpec(env, a)
		if err != nil {
			return specVal{}, err
		}
		pt, err := c.resolveType(pkg, pd.Params[i][1])
		if err != nil {
			return specVal{}, err
		}
		args = append(args, specVal{c.coerce(env.st, v, pt), pt})
	}
	rt, err := c.resolveType(pkg, pd.Result)
	if err != nil {
		return specVal{}, err
	}
	if pd.Recursive {
		sorts := make([]Sort, len(args))
		parts := make([]string, len(args))
		for i, a := range args {
			sorts[i] = a.t.Sort
			parts[i] = a.t.S
		}
		fn := "rpred_" + sanitize(pd.Name)
		c.Reg.DeclFun(fn, sorts, SBool)
		atom := T(SBool, "(%s %s)", fn, strings.Join(parts, " "))
		if env.rdepth == 0 && pd.Body != nil {
			sub := &specEnv{c: c, st: env.st, vars: map[string]specVal{}, pkg: pkg, fn: env.fn, frame: env.frame, rdepth: 1, pol: 1, polSet: true, callee: env.callee, calleeRecs: env.calleeRecs}
			for i, p := range pd.Params {
				sub.vars[p[0]] = args[i]
			}
			body, err := c.evalBool(sub, pd.Body)
			if err != nil {
				return specVal{}, fmt.Errorf("in %s: %v", pd.Name, err)
			}
			// one-level unfolding in the current state (the structure is immutable once built).
			// Both directions are true facts; only the direction that can help is stated (an
			// assumed positive occurrence needs atom => body, a goal needs body => atom).
			dir := env.pol
			if env.assertMode {
				dir = -dir
			}
			switch {
			case dir > 0:
				env.st.Assume(Implies(atom, body))
			case dir < 0:
				env.st.Assume(Implies(body, atom))
			default:
				env.st.Assume(T(SBool, "(= %s %s)", atom.S, body.S))
			}
		}
		return specVal{atom, rt}, nil
	}
	if pd.Body != nil {
		sub := &specEnv{c: c, st: env.st, vars: map[string]specVal{}, pkg: pkg, fn: env.fn, post: env.post, results: env.results, old: env.old, oldCache: env.oldCache, frame: env.frame, loopHead: env.loopHead, rdepth: env.rdepth, preAlloc: env.preAlloc, oldArrays: env.oldArrays, pol: env.pol, polSet: true, assertMode: env.assertMode, callee: env.callee, calleeRecs: env.calleeRecs}
		for i, p := range pd.Params {
			sub.vars[p[0]] = args[i]
		}
		v, err := c.evalSpec(sub, pd.Body)
		if err != nil {
			return specVal{}, fmt.Errorf("in %s: %v", pd.Name, err)
		}
		return specVal{v.t, rt}, nil
	}
	sorts := make([]Sort, len(args))
	parts := make([]string, len(args))
	for i, a := range args {
		sorts[i] = a.t.Sort
		parts[i] = a.t.S
	}
	fn := "pure_" + sanitize(pd.Name)
	c.Reg.DeclFun(fn, sorts, c.Reg.SortOf(rt))
	if len(args) == 0 {
		return specVal{Term{fn, c.Reg.SortOf(rt)}, rt}, nil
	}
	return specVal{T(c.Reg.SortOf(rt), "(%s %s)", fn, strings.Join(parts, " ")), rt}, nil
}

// ghost state: a family GH|name holding a (curried) array indexed by the parameters.
func (c *Ctx) ghostFam(gd *GhostDef, pkg *types.Package) (string, Sort, []types.Type, types.Type, error) {
	rt, err := c.resolveType(pkg, gd.Result)
	if err != nil {
		return "", "", nil, nil, err
	}
	sort := c.Reg.SortOf(rt)
	var pts []types.Type
	for i := len(gd.Params) - 1; i >= 0; i-- {
		pt, err := c.resolveType(pkg, gd.Params[i][1])
		if err != nil {
			return "", "", nil, nil, err
		}
		sort = ArraySort(c.Reg.SortOf(pt), sort)
	}
	for _, p := range gd.Params {
		pt, _ := c.resolveType(pkg, p[1])
		pts = append(pts, pt)
	}
	return "GH|" + gd.Name, sort, pts, rt, nil
}

func (c *Ctx) evalGhost(env *specEnv, gd *GhostDef, n *SNode) (specVal, error) {
	pkg := env.pkg
	if p := c.LemmaPkg["ghost:"+gd.Name]; p != nil {
		pkg = p.Types
	}
	fam, sort, pts, rt, err := c.ghostFam(gd, pkg)
	if err != nil {
		return specVal{}, err
	}
	if len(n.Args) != len(pts) {
		return specVal{}, fmt.Errorf("ghost %s expects %d arguments", gd.Name, len(pts))
	}
	cur := c.Arr(env.st, fam, sort)
	for i, a := range n.Args {
		v, err := c.evalSpec(env, a)
		if err != nil {
			return specVal{}, err
		}
		cur = Select(cur, c.coerce(env.st, v, pts[i]))
	}
	return specVal{cur, rt}, nil
}

// captureOld pre-evaluates every old(...) of the given clauses in the current state.
func (c *Ctx) captureOld(env *specEnv, clauses []Clause, cache map[*SNode]specVal) {
	var walk func(n *SNode)
	walk = func(n *SNode) {
		if n == nil {
			return
		}
		if n.Op == "call" && n.Text == "old" && len(n.Args) == 1 {
			v, err := c.evalSpec(env, n.Args[0])
			if err != nil {
				c.Errorf("CONTRACT-ERROR old(%s): %v", n.Args[0], err)
				return
			}
			cache[n] = v
			return
		}
		if n.Op == "forall" || n.Op == "exists" {
			saved := map[string]specVal{}
			for _, v := range n.Vars {
				t, err := c.resolveType(env.pkg, v[1])
				if err != nil {
					return
				}
				if o, ok := env.vars[v[0]]; ok {
					saved[v[0]] = o
				}
				name := strings.ReplaceAll(fmt.Sprintf("q.%s.%p", v[0], n), "0x", "")
				env.vars[v[0]] = specVal{Term{name, c.Reg.SortOf(t)}, t}
			}
			for _, a := range n.Args {
				walk(a)
			}
			for _, v := range n.Vars {
				delete(env.vars, v[0])
				if o, ok := saved[v[0]]; ok {
					env.vars[v[0]] = o
				}
			}
			return
		}
		for _, a := range n.Args {
			walk(a)
		}
	}
	for _, cl := range clauses {
		walk(cl.Expr)
	}
}

func (c *Ctx) ctxID(st *State, ctx Term) Term {
	c.Reg.DeclFun("ctx_id", []Sort{SAny}, SInt)
	if ctx.Sort == SInt {
		return ctx
	}
	return T(SInt, "(ctx_id %s)", ctx.S)
}

var _ = math.Inf

// typeTextOf renders a spec expression that was meant as a type (e.g. *node parsed as a
// dereference) back into type text.
func typeTextOf(a *SNode) (string, bool) {
	switch a.Op {
	case "typelit":
		return a.Type, true
	case "id":
		return a.Text, true
	case "sel":
		if a.Args[0].Op == "id" {
			return a.Args[0].Text + "." + a.Text, true
		}
	case "un":
		if a.Text == "*" {
			if t, ok := typeTextOf(a.Args[0]); ok {
				return "*" + t, true
			}
		}
	}
	return "", false
}

// typeOfCallRes finds the Go type of the k-th result of a call site of the function under verification.
func (c *Ctx) typeOfCallRes(env *specEnv, callee string, ord string, k int) types.Type {
	if env.fn == nil {
		return tAny
	}
	for ins, si := range c.sitesOf(env.fn) {
		if si.class == "call "+callee && fmt.Sprint(si.ord) == ord {
			if call, ok := ins.(*ssa.Call); ok {
				rs := call.Call.Signature().Results()
				if k < rs.Len() {
					return rs.At(k).Type()
				}
			}
		}
	}
	return tAny
}

// lookupSent finds the last value sent on a channel, identifying the channel up to the
// abbreviations introduced for long terms.
func (c *Ctx) lookupSent(st *State, ch Term) (Term, bool) {
	if v, ok := st.lastSent[ch.S]; ok {
		return v, true
	}
	for k, v := range st.lastSent {
		if st.aliases[k] == ch.S || (st.aliases[ch.S] != "" && st.aliases[ch.S] == st.aliases[k]) || st.aliases[ch.S] == k {
			return v, true
		}
	}
	return Term{}, false
}

func (c *Ctx) typeOfCallArg(env *specEnv, callee string, ord string, k int) types.Type {
	if env.fn == nil {
		return tAny
	}
	for ins, si := range c.sitesOf(env.fn) {
		if si.class == "call "+callee && fmt.Sprint(si.ord) == ord {
			if call, ok := ins.(*ssa.Call); ok && k < len(call.Call.Args) {
				return call.Call.Args[k].Type()
			}
		}
	}
	return tAny
}

// hoistClosed evaluates, in the context outside quantifier q, the maximal subterms of its
// body that mention none of the variables bound in q; the results are cached for the
// evaluation of the body. Returns the cached nodes.
func (c *Ctx) hoistClosed(env *specEnv, q *SNode) []*SNode {
	bound := map[string]bool{}
	var collect func(n *SNode)
	collect = func(n *SNode) {
		if n == nil {
			return
		}
		for _, v := range n.Vars {
			bound[v[0]] = true
		}
		for _, a := range n.Args {
			collect(a)
		}
	}
	collect(q)
	var out []*SNode
	var closed func(n *SNode) bool
	closed = func(n *SNode) bool {
		if n == nil {
			return true
		}
		switch n.Op {
		case "id":
			return !bound[n.Text] && n.Text != "rangeidx" && n.Text != "outeridx"
		case "forall", "exists", "typelit":
			return false
		}
		if n.Op == "call" && n.Text == "visitedin" {
			return false
		}
		if n.Op == "call" && (n.Text == "typeis" || n.Text == "visited") && len(n.Args) > 0 {
			// the first argument is an ordinary expression, the rest is syntax
			if closed(n.Args[0]) {
				c.tryHoist(env, n.Args[0], &out)
			}
			return false
		}
		if n.Op == "call" && (n.Text == "old" || n.Text == "at" || n.Text == "visited" || n.Text == "typeis" || n.Text == "zero" || n.Text == "callarg" || n.Text == "callres" || n.Text == "callrecv" || n.Text == "called") {
			// state-switching or syntactic forms: never split; hoist as a whole when closed
			all := true
			for _, a := range n.Args {
				if !idsFree(a, bound) {
					all = false
				}
			}
			return all && n.Text != "typeis" && n.Text != "zero" && n.Text != "visited"
		}
		cl := make([]bool, len(n.Args))
		all := true
		for i, a := range n.Args {
			cl[i] = closed(a)
			if !cl[i] {
				all = false
			}
		}
		if all {
			return true
		}
		for i, a := range n.Args {
			if cl[i] {
				c.tryHoist(env, a, &out)
			}
		}
		return false
	}
	body := q.Args[0]
	if closed(body) {
		return nil // a closed body needs no quantifier tricks
	}
	return out
}

func idsFree(n *SNode, bound map[string]bool) bool {
	if n == nil {
		return true
	}
	if n.Op == "id" && bound[n.Text] {
		return false
	}
	for _, v := range n.Vars {
		_ = v
		return false
	}
	for _, a := range n.Args {
		if !idsFree(a, bound) {
			return false
		}
	}
	return true
}

func (c *Ctx) tryHoist(env *specEnv, n *SNode, out *[]*SNode) {
	switch n.Op {
	case "sel", "idx", "typeassert", "call", "un":
	default:
		return
	}
	if n.Op == "un" && n.Text != "*" {
		return
	}
	savedErrs := len(c.Errors)
	v, err := c.evalSpec(env, n)
	c.Errors = c.Errors[:savedErrs]
	if err != nil || v.t.Sort == SBool {
		return
	}
	v.t = c.Name(env.st, "hs", v.t)
	if env.hoist == nil {
		env.hoist = map[*SNode]specVal{}
	}
	env.hoist[n] = v
	*out = append(*out, n)
}

// calleeRec: a called/callarg/callres/callrecv term of a callee's contract, seen from a call site.
// The caller knows nothing about the calls its callee made: the term is an unknown of its type (the
// same unknown for every occurrence in the contract of this one call).
func (c *Ctx) calleeRec(env *specEnv, n *SNode, typ types.Type) specVal {
	k := n.String()
	if v, ok := env.calleeRecs[k]; ok {
		return v
	}
	v := specVal{c.FreshConst(env.st, "calleerec", c.Reg.SortOf(typ)), typ}
	env.calleeRecs[k] = v
	return v
}
